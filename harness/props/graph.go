package props

import (
	"fmt"
	"math/rand"

	"github.com/f1bonacc1/process-compose/src/types"

	"pcverif/fw"
	"pcverif/sim"
)

var conds = []string{
	types.ProcessConditionCompleted,
	types.ProcessConditionCompletedSuccessfully,
	types.ProcessConditionHealthy,
	types.ProcessConditionLogReady,
	types.ProcessConditionStarted,
}

type graphOpts struct {
	MaxN      int
	Probes    bool // allow process_healthy edges (real 1 s probe period)
	ExitOn    bool // sprinkle exit_on_* flags
	FailHeavy bool // more failing roots (C05)
	Restarts  bool
	ApiOps    bool // StartProcess / RestartProcess / StopProcess ops
	Density   float64
}

// genGraph draws a random acyclic project with behaviours.
func genGraph(rng *rand.Rand, o graphOpts) LifeSpec {
	n := 2 + rng.Intn(o.MaxN-1)
	spec := LifeSpec{BackoffUnitMs: 20, AutoSched: true}
	if rng.Intn(4) == 0 {
		spec.SchedPauseMs = 1 + rng.Intn(5)
	}
	if rng.Intn(3) == 0 {
		spec.PerturbUs = 200 + rng.Intn(1500)
	}
	dens := o.Density
	if dens == 0 {
		dens = 0.25 + rng.Float64()*0.45
	}
	exitCodes := []int{0, 0, 0, 0, 1, 3, 127, -1}
	if o.FailHeavy {
		exitCodes = []int{0, 0, 1, 2, 3, 127, -1}
	}
	for i := 0; i < n; i++ {
		p := PSpec{Name: fmt.Sprintf("p%d", i)}
		// behaviour
		p.Exits = []int{exitCodes[rng.Intn(len(exitCodes))]}
		if rng.Intn(10) < 4 {
			p.RunMs = []int{-1}
		} else {
			p.RunMs = []int{rng.Intn(12)}
		}
		switch rng.Intn(20) {
		case 0:
			p.StartErr = []int{0}
		case 1:
			p.BadDir = true
		case 2, 3:
			// a process that is not scheduled to run: its dependents do not wait
			// for it, but still have to wait for their other dependencies
			p.Disabled = true
		}
		if o.Restarts && rng.Intn(4) == 0 {
			p.Restart = []string{"on_failure", "always", "on_failure"}[rng.Intn(3)]
			p.MaxRestarts = 1 + rng.Intn(2)
			p.Exits = []int{exitCodes[rng.Intn(len(exitCodes))], exitCodes[rng.Intn(len(exitCodes))], exitCodes[rng.Intn(len(exitCodes))]}
			if rng.Intn(2) == 0 {
				p.RunMs = []int{rng.Intn(8)}
			}
		}
		if o.ExitOn && rng.Intn(8) == 0 && len(p.RunMs) > 0 && p.RunMs[0] < 0 {
			// stopped through a shutdown command, which may fail at once
			p.StopCmd = []string{"exit 1", "true", "exit 7"}[rng.Intn(3)]
		}
		if o.ExitOn {
			switch rng.Intn(9) {
			case 0:
				p.Restart = "exit_on_failure"
			case 1:
				p.ExitOnEnd = true
			case 2:
				p.ExitOnSkipped = true
			case 3:
				p.Restart = "exit_on_failure"
				p.Exits = []int{1 + rng.Intn(4)}
			}
		}
		spec.Procs = append(spec.Procs, p)
	}
	probeless := map[int]bool{} // process_healthy dependencies left without a probe
	// edges j -> i for j < i
	for i := 1; i < n; i++ {
		for j := 0; j < i; j++ {
			if rng.Float64() > dens {
				continue
			}
			c := conds[rng.Intn(len(conds))]
			d := &spec.Procs[j]
			switch c {
			case types.ProcessConditionHealthy:
				if d.ReadyLine != "" {
					c = types.ProcessConditionCompleted
				} else if !o.Probes {
					// without probes (no real-time cost) one in three of these
					// edges stays process_healthy on a probe-less dependency
					if d.Probe || rng.Intn(3) != 0 {
						c = types.ProcessConditionCompleted
					} else {
						probeless[j] = true
					}
				} else if !d.Probe && rng.Intn(4) == 0 {
					probeless[j] = true
					// process_healthy on a dependency without a readiness probe:
					// it can never be reported healthy, its dependents are
					// released (skipped) when it ends
				} else {
					d.Probe = true
					d.ProbeFail = 3
				}
			case types.ProcessConditionLogReady:
				if d.Probe || probeless[j] {
					c = types.ProcessConditionCompletedSuccessfully
				} else if d.ReadyLine == "" {
					d.ReadyLine = fmt.Sprintf("rdy-%d-ok", j)
				}
			}
			spec.Procs[i].Deps = append(spec.Procs[i].Deps, Dep{On: d.Name, Cond: c})
		}
	}
	// processes that must become ready should usually live long enough
	for i := range spec.Procs {
		p := &spec.Procs[i]
		if (p.Probe || p.ReadyLine != "") && rng.Intn(4) != 0 {
			p.RunMs = []int{-1}
		}
		if p.Probe && len(p.RunMs) > 0 && p.RunMs[0] >= 0 {
			p.RunMs = []int{rng.Intn(12)}
		}
	}
	if o.ApiOps && rng.Intn(2) == 0 {
		k := 1 + rng.Intn(3)
		for q := 0; q < k; q++ {
			target := spec.Procs[rng.Intn(n)].Name
			op := []string{"restart", "start", "stop", "start"}[rng.Intn(4)]
			when := []string{"launch:" + target, "exit:" + target, fmt.Sprintf("t:%d", rng.Intn(30)), "instance:" + target}[rng.Intn(4)]
			spec.Ops = append(spec.Ops, Op{When: when, Op: op, Proc: target, Async: rng.Intn(2) == 0})
		}
	}
	return spec
}

// genStaleDepCase: the dependency succeeds on its first run, is started again
// by hand and fails; the dependent is started while that second instance runs.
func genStaleDepCase(rng *rand.Rand) LifeSpec {
	cond := []string{types.ProcessConditionCompletedSuccessfully, types.ProcessConditionCompleted}[rng.Intn(2)]
	spec := LifeSpec{BackoffUnitMs: 20}
	spec.Procs = []PSpec{
		{Name: "d0", Exits: []int{0, 1 + rng.Intn(3)}, RunMs: []int{1 + rng.Intn(3), -1}},
		{Name: "x0", RunMs: []int{1 + rng.Intn(3)}, Deps: []Dep{{On: "d0", Cond: cond}}},
		{Name: "by", RunMs: []int{-1}},
	}
	spec.Ops = []Op{
		{When: "exit:x0:1", Op: "start", Proc: "d0"},
		{When: "launch:d0:2", Op: "start", Proc: "x0"},
		{When: "now", Op: "sleep", N: 5 + rng.Intn(15)},
		{When: "now", Op: "release", Proc: "d0"},
		{When: "exit:d0:2", Op: "sleep", N: 10},
	}
	spec.EndWithShutdown = true
	spec.SilenceMs = 4000
	return spec
}

func lifeSample(lr *LifeRun) any {
	f := sim.FormatEvents(lr.Events)
	if len(f) > 60 {
		f = append(f[:40], "...")
	}
	return map[string]any{"events": f, "run_exit_code": lr.ExitCode}
}

// runGraphCase runs one lifecycle case and applies the oracle set.
func runGraphCase(c fw.Case, oracles func(lr *LifeRun, ix *lifeIndex, r *fw.Result), nontrivial func(lr *LifeRun, ix *lifeIndex) bool, sigKinds []string) fw.Result {
	var spec LifeSpec
	c.Params(&spec)
	var after map[string]types.ProcessState
	lr := RunLife(c.Seed, &spec, func(lr *LifeRun) {
		after = lr.Final
	})
	_ = after
	r := fw.Result{}
	if lr.LoadErr != nil {
		r.Inconclusive = "load: " + lr.LoadErr.Error()
		return r
	}
	ix := indexLife(lr.Events)
	if lr.Outcome == sim.RunWatchdog {
		r.Inconclusive = "outer watchdog fired while events were still flowing"
		r.Dirty = true
	}
	if lr.Outcome == sim.RunHang {
		r.Dirty = true
	}
	if lr.Outcome == sim.RunStalled {
		// a command is alive, nothing will end it and no event flows: not a
		// verdict by itself (the order/absence oracles still judge the log)
		r.Dirty = true
		r.Count("stalled_with_live_command", 1)
	}
	oracles(lr, ix, &r)
	for _, b := range lr.Blocked {
		r.Add("C19", "client-call-never-returned", "the client call %s did not return within 25 s (the server answers such requests within milliseconds in this scenario)", b)
	}
	r.NonTrivial = nontrivial(lr, ix)
	r.Sig = sim.Signature(lr.Events, sigKinds...)
	if len(r.Findings) > 0 {
		r.Witness = witness(lr, 400)
	}
	if c.Idx < 40 {
		r.Sample = lifeSample(lr)
	}
	for k, v := range lr.YieldCount {
		r.Count("yield."+k, v)
	}
	r.Count("events", len(lr.Events))
	return r
}

func allLifeOracles(lr *LifeRun, ix *lifeIndex, r *fw.Result) {
	oracleGating(lr, ix, r)
	oracleSkip(lr, ix, r)
	oracleCompletion(lr, ix, r)
	oracleOverlap(lr, ix, r)
	oracleShutdown(lr, ix, r)
	oracleOrdered(lr, ix, r)
}

func tierN(tier string, quick, thorough int) int {
	if tier == "thorough" {
		return thorough
	}
	return quick
}

func init() {
	sigKinds := []string{sim.EvLaunch, sim.EvExit, sim.EvState, sim.EvProbe, sim.EvGate}

	fw.Register(&fw.Property{
		ID: "C01", Level: "exploration",
		Rule:        "seeded random acyclic projects (2-8 processes, five condition types, exit codes, start failures, restarts) under an environment scheduler that orders dependency exits / ready lines / probe results at random, plus API start/restart/stop; a case is non-trivial when at least one launch had to wait for a gate event that occurred after the dependent's instance existed; distinct = distinct event-order signature (launch/exit/state/probe/gate sequence)",
		Assumptions: []string{"simulated Commander (build tag verif) replaces exec; gate events are recorded before the supervisor can observe them", "finished = the dependency's terminal status write"},
		Gen: func(seed int64, tier string) []fw.Case {
			var cs []fw.Case
			n := tierN(tier, 8000, 120000)
			for i := 0; i < n; i++ {
				s := fw.SubSeed(seed, i)
				rng := fw.Rand(s)
				spec := genGraph(rng, graphOpts{MaxN: 8, Probes: i%40 == 0, Restarts: true, ApiOps: i%3 == 0})
				if i%40 == 7 {
					cs = append(cs, fw.MkCase("C01", "stale-dependency-instance", s, genStaleDepCase(rng)))
					continue
				}
				cs = append(cs, fw.MkCase("C01", "graph", s, spec))
			}
			// process_healthy on a dependency whose exec readiness probe can only
			// fail (exit code, hang past timeout_seconds, killed, not runnable):
			// no probe success is ever recorded, so the dependent must never be
			// launched - also not when the dependency is stopped at the threshold,
			// restarted by its policy, or ends by itself (seeded change C01-r4-2)
			for i := 0; i < tierN(tier, 12, 96); i++ {
				s := fw.SubSeed(seed, 7700000+i)
				rng := fw.Rand(s)
				cmd := []string{"exit 3", "sleep 20", "kill -9 $$", "/nonexistent/pcverif-probe"}[i%4]
				hp := PSpec{Name: "hp", RunMs: []int{-1}, Restart: []string{"no", "", "on_failure"}[rng.Intn(3)], ProbeExec: cmd, ProbeFail: 1 + rng.Intn(3)}
				if i%8 >= 4 {
					// ends by itself, before or after the first probe verdict
					hp.RunMs = []int{500 + rng.Intn(2500)}
					hp.Exits = []int{rng.Intn(2)}
				}
				spec := LifeSpec{BackoffUnitMs: 20, SilenceMs: 6000, MaxMs: 30000, EndWithShutdown: true,
					Procs: []PSpec{hp, {Name: "user", RunMs: []int{20}, Deps: []Dep{{On: "hp", Cond: types.ProcessConditionHealthy}}}}}
				if hp.RunMs[0] < 0 {
					spec.Ops = []Op{{When: "signal:hp", Op: "sleep", N: 50 + rng.Intn(200)}}
				} else {
					spec.Ops = []Op{{When: "state:hp:" + types.ProcessStateCompleted, Op: "sleep", N: 50}}
				}
				cs = append(cs, fw.MkCase("C01", "gate-exec-probe", s, spec))
			}
			return cs
		},
		Run: func(c fw.Case) fw.Result {
			return runGraphCase(c, allLifeOracles, func(lr *LifeRun, ix *lifeIndex) bool { return realWaits(lr, ix) > 0 }, sigKinds)
		},
		Workers: func(string) int { return 24 },
	})

	fw.Register(&fw.Property{
		ID: "C04", Level: "exploration",
		Rule:        "random acyclic projects with exit_on_failure / exit_on_end / exit_on_skipped on 0-3 processes, start failures, bad working dirs, skipped dependencies under every condition type; oracle: Run() returns (bounded-progress rule), not before the last command exit, with an exit code from the set of genuine triggers; non-trivial = at least one trigger or one process that never launched; distinct = event-order signature",
		Assumptions: []string{"hang = no event for 6 s while no simulated command is alive and no request pending", "victim = command killed by a signal sent after the shutdown began"},
		Gen: func(seed int64, tier string) []fw.Case {
			var cs []fw.Case
			n := tierN(tier, 8000, 120000)
			for i := 0; i < n; i++ {
				s := fw.SubSeed(seed, i)
				rng := fw.Rand(s)
				spec := genGraph(rng, graphOpts{MaxN: 7, Probes: i%48 == 0, ExitOn: true, FailHeavy: i%2 == 0, Restarts: i%3 == 0})
				if i%6 == 5 {
					// the user stops a process (preferably one carrying exit_on_*)
					// while it is still waiting for its dependencies
					t := spec.Procs[rng.Intn(len(spec.Procs))].Name
					for _, p := range spec.Procs {
						if len(p.Deps) > 0 && (p.ExitOnSkipped || p.ExitOnEnd) && rng.Intn(2) == 0 {
							t = p.Name
						}
					}
					spec.Ops = append(spec.Ops, Op{When: "instance:" + t, Op: "stop", Proc: t})
				}
				cs = append(cs, fw.MkCase("C04", "graph-exit", s, spec))
			}
			// a process carrying exit_on_* is stopped by the user between its
			// entry check and a validation / start that will fail
			for i := 0; i < tierN(tier, 64, 1000); i++ {
				s := fw.SubSeed(seed, 9500000+i)
				rng := fw.Rand(s)
				t := PSpec{Name: "t", RunMs: []int{-1}, Exits: []int{3}}
				point := "run.afterTermCheck"
				if i%2 == 0 {
					t.BadDir = true
				} else {
					t.StartErr, point = []int{0}, "run.beforeLaunch"
				}
				switch i % 3 {
				case 0:
					t.Restart = "exit_on_failure"
				case 1:
					t.ExitOnEnd = true
				default:
					t.Restart, t.ExitOnEnd = "exit_on_failure", true
				}
				spec := LifeSpec{BackoffUnitMs: 20, EndWithShutdown: true, SilenceMs: 4000,
					Procs: []PSpec{t, {Name: "by", RunMs: []int{-1}, Sig: &sim.SigSpec{Ms: rng.Intn(5)}}},
					Holds: []sim.Hold{{Point: point, Name: "t", Nth: 1, MaxMs: 150, Tag: "h"}},
					Ops:   []Op{{When: "hold:h", Op: "stop", Proc: "t", Release: []string{"h"}}, {When: "now", Op: "sleep", N: 10 + rng.Intn(20)}}}
				cs = append(cs, fw.MkCase("C04", "stopped-then-fails", s, spec))
			}
			// an exit_on_* trigger fires while Run() is still inside its start-up
			// loop (held at the yield point), the processes launched so far are
			// slow to die
			for i := 0; i < tierN(tier, 96, 1600); i++ {
				s := fw.SubSeed(seed, 9000000+i)
				// index: point Run.loop (0 mod 14), trigger 1..3, shape, ordered
				idx := 14*(1+i%3) + 14*4*((i/3)%4) + 14*16*((i/12)%2)
				spec, label := genShutdownCase(fw.Rand(s), idx)
				cs = append(cs, fw.MkCase("C04", "exit-trigger-during-startup:"+label, s, spec))
			}
			return cs
		},
		Run: func(c fw.Case) fw.Result {
			return runGraphCase(c, allLifeOracles, func(lr *LifeRun, ix *lifeIndex) bool {
				if len(ix.shutdownEnter) > 0 {
					return true
				}
				for i := range lr.Spec.Procs {
					pl := ix.procs[lr.Spec.Procs[i].Name]
					if pl == nil || len(pl.Launches) == 0 {
						return true
					}
				}
				return false
			}, sigKinds)
		},
		Workers: func(string) int { return 24 },
	})

	fw.Register(&fw.Property{
		ID: "C05", Level: "exploration",
		Rule:        "random chains/trees (depth <= 6) whose roots fail in every way (non-zero exit, start error, bad working dir, exit before ready line / probe success, stopped by the user) mixed with slow satisfied siblings; reference: an edge whose dependency reached a terminal state with the condition unmet must leave the dependent never launched and reported Skipped with exit code != 0, recursively; non-trivial = at least one unsatisfiable edge observed; distinct = event-order signature",
		Assumptions: []string{"only single-instance histories are judged for the Skipped report (API restarts make the terminal state ambiguous)"},
		Gen: func(seed int64, tier string) []fw.Case {
			var cs []fw.Case
			n := tierN(tier, 8000, 120000)
			for i := 0; i < n; i++ {
				s := fw.SubSeed(seed, i)
				rng := fw.Rand(s)
				spec := genGraph(rng, graphOpts{MaxN: 7, Probes: i%40 == 0, FailHeavy: true, ExitOn: i%4 == 0, Restarts: i%7 == 3, Density: 0.35 + rng.Float64()*0.4})
				if i%7 == 3 {
					// a failing, restartable dependency is stopped by the user inside its back-off
					for k := range spec.Procs {
						if p := &spec.Procs[k]; p.Restart == "on_failure" || p.Restart == "always" {
							p.Backoff = 2
							spec.Ops = append(spec.Ops, Op{When: "state:" + p.Name + ":Restarting", Op: "stop", Proc: p.Name})
							break
						}
					}
				}
				if i%5 == 0 {
					// user stops a dependency while it runs / while it is pending
					t := spec.Procs[rng.Intn(len(spec.Procs))].Name
					when := []string{"launch:" + t, "instance:" + t}[rng.Intn(2)]
					spec.Ops = append(spec.Ops, Op{When: when, Op: "stop", Proc: t})
				}
				if i%40 == 9 {
					cs = append(cs, fw.MkCase("C05", "stale-dependency-instance", s, genStaleDepCase(rng)))
					continue
				}
				cs = append(cs, fw.MkCase("C05", "graph-fail", s, spec))
			}
			return cs
		},
		Run: func(c fw.Case) fw.Result {
			return runGraphCase(c, allLifeOracles, func(lr *LifeRun, ix *lifeIndex) bool {
				for i := range lr.Spec.Procs {
					for _, d := range lr.Spec.Procs[i].Deps {
						if unsatisfiedTerminal(ix, d.On, d.Cond) != nil {
							return true
						}
					}
				}
				return false
			}, sigKinds)
		},
		Workers: func(string) int { return 24 },
	})
}
