package props

import (
	"bytes"
	"fmt"
	"math/rand"
	"os"
	"os/exec"
	"path/filepath"
	"strconv"
	"strings"
	"syscall"
	"time"

	"pcverif/fw"
	"pcverif/sim"
)

// ------------------------------------------------------------------ C06 (real processes)

// memberScript is one member of a managed process tree. It logs the signals
// it receives (trappable ones) and can spawn children.
const memberScript = `#!/bin/bash
# env: PCV_LOG PCV_ROLE PCV_DEPTH PCV_KIDS PCV_IGNORE PCV_FLAG PCV_DETACH_IO
role="${PCV_ROLE:-parent}"
log="$PCV_LOG"
for s in 1 2 3 10 12 14 15 30 31; do
  if [ -n "$PCV_IGNORE" ] && [ "$s" = 15 ]; then
    trap "echo \"$role GOT $s \$(date +%s%N)\" >> $log" $s
  else
    trap "echo \"$role GOT $s \$(date +%s%N)\" >> $log; kill \$sl 2>/dev/null; exit 0" $s
  fi
done
echo "$role START $$ $(date +%s%N)" >> "$log"
depth="${PCV_DEPTH:-0}"
if [ "$depth" -gt 0 ]; then
  for k in $(seq 1 ${PCV_KIDS:-1}); do
    if [ -n "$PCV_DETACH_IO" ]; then
      PCV_ROLE="$role.c$k" PCV_DEPTH=$((depth-1)) PCV_IGNORE="$PCV_KID_IGNORE" "$0" </dev/null >/dev/null 2>&1 &
    else
      PCV_ROLE="$role.c$k" PCV_DEPTH=$((depth-1)) PCV_IGNORE="$PCV_KID_IGNORE" "$0" &
    fi
  done
fi
# idle without fork churn (a tree that outlives its case must not load the
# machine): poll only when there is a flag file to watch; "wait" returns as
# soon as a trapped signal arrives
while true; do
  if [ -n "$PCV_FLAG" ]; then
    if [ -e "$PCV_FLAG" ]; then echo "$role FLAGEXIT $(date +%s%N)" >> "$log"; exit 0; fi
    sleep 0.1 </dev/null >/dev/null 2>&1 &
  else
    sleep 600 </dev/null >/dev/null 2>&1 &
  fi
  sl=$!
  wait $sl
done
`

type rpCase struct {
	Signal     int    `json:"signal"`
	ParentOnly bool   `json:"parent_only"`
	Timeout    int    `json:"timeout"`
	Command    string `json:"command"` // "" | "ok" | "fail" | "hang"
	Depth      int    `json:"depth"`
	Kids       int    `json:"kids"`
	Ignore     bool   `json:"ignore_term"` // the parent ignores SIGTERM
	KidIgnore  bool   `json:"kid_ignore"`  // children ignore SIGTERM
	DetachIO   bool   `json:"detach_io"`
	Trigger    string `json:"trigger"` // "stop" | "shutdown" | "SIGTERM" | "SIGINT" | "SIGHUP"
	DelayMs    int    `json:"delay_ms"`
	Ordered    bool   `json:"ordered"`
	Other      bool   `json:"other"`            // a second, plain process in the project
	Second     string `json:"second,omitempty"` // binary mode: a second OS signal sent SecondMs after the first
	SecondMs   int    `json:"second_ms,omitempty"`
}

func effSignal(s int) int {
	if s < 1 || s > 31 {
		return 15
	}
	return s
}

func genRpCase(rng *rand.Rand, i int) rpCase {
	sigs := []int{1, 2, 3, 10, 12, 15, 0, -1, 32, 77, 31, 30, 14}
	c := rpCase{Signal: sigs[i%len(sigs)], ParentOnly: (i/len(sigs))%2 == 1}
	c.Timeout = []int{0, 1, 2}[rng.Intn(3)]
	c.Command = []string{"", "", "ok", "fail", "hang", "", "nostart"}[rng.Intn(7)]
	c.Depth = rng.Intn(3)
	c.Kids = 1 + rng.Intn(2)
	c.DetachIO = rng.Intn(2) == 0
	if rng.Intn(5) == 0 {
		c.Ignore = true
	}
	if rng.Intn(6) == 0 && c.Depth > 0 {
		c.KidIgnore = true
	}
	// a member that ignores the stop signal needs a timeout to ever end
	if (c.Ignore || c.KidIgnore) && c.Timeout == 0 {
		c.Timeout = 1
	}
	if c.Command == "hang" && c.Timeout == 0 {
		c.Timeout = 1
	}
	// bash starts background children with SIGINT and SIGQUIT ignored (no job
	// control): for those signals the children behave like members that
	// ignore the stop signal
	if (effSignal(c.Signal) == 2 || effSignal(c.Signal) == 3) && c.Depth > 0 {
		c.KidIgnore = true
		if c.Timeout == 0 {
			c.Timeout = 1
		}
	}
	// with parent_only the children are left alone by design: they must not
	// hold the supervisor's output pipes
	if c.ParentOnly {
		c.DetachIO = true
	}
	c.Trigger = []string{"stop", "shutdown", "shutdown", "SIGTERM", "SIGINT", "SIGHUP"}[rng.Intn(6)]
	c.DelayMs = rng.Intn(400)
	c.Ordered = rng.Intn(3) == 0
	c.Other = rng.Intn(2) == 0
	if strings.HasPrefix(c.Trigger, "SIG") && rng.Intn(2) == 0 {
		// a second signal (double Ctrl+C, init sending TERM then HUP) while
		// the first shutdown may still be in progress
		c.Second = []string{"SIGTERM", "SIGINT", "SIGHUP"}[rng.Intn(3)]
		c.SecondMs = 50 + rng.Intn(600)
	}
	return c
}

func procsWithMarker(marker string) []int {
	var pids []int
	ents, _ := os.ReadDir("/proc")
	needle := []byte("PCV_MARK=" + marker)
	for _, e := range ents {
		pid, err := strconv.Atoi(e.Name())
		if err != nil {
			continue
		}
		b, err := os.ReadFile(filepath.Join("/proc", e.Name(), "environ"))
		if err != nil {
			continue
		}
		if bytes.Contains(b, needle) {
			// zombies have an empty environ; a process being reaped may still show up
			st, _ := os.ReadFile(filepath.Join("/proc", e.Name(), "stat"))
			if bytes.Contains(st, []byte(") Z ")) {
				continue
			}
			pids = append(pids, pid)
		}
	}
	return pids
}

// killMarkedPrefix kills every process whose environment carries a marker
// starting with prefix.
func killMarkedPrefix(prefix string) {
	needle := []byte("PCV_MARK=" + prefix)
	ents, _ := os.ReadDir("/proc")
	for _, e := range ents {
		pid, err := strconv.Atoi(e.Name())
		if err != nil {
			continue
		}
		b, err := os.ReadFile("/proc/" + e.Name() + "/environ")
		if err == nil && bytes.Contains(b, needle) {
			_ = syscall.Kill(pid, syscall.SIGKILL)
		}
	}
}

func killMarked(marker string) {
	for _, pid := range procsWithMarker(marker) {
		_ = syscall.Kill(pid, syscall.SIGKILL)
	}
}

// pidAlive: the process exists and is not a zombie.
func pidAlive(pid string) bool {
	b, err := os.ReadFile("/proc/" + pid + "/stat")
	if err != nil {
		return false
	}
	if i := strings.LastIndexByte(string(b), ')'); i >= 0 && i+2 < len(b) {
		return b[i+2] != 'Z' && b[i+2] != 'X'
	}
	return true
}

type logLine struct {
	role string
	what string
	arg  string
	t    int64
}

func readTrapLog(path string) []logLine {
	b, _ := os.ReadFile(path)
	var out []logLine
	for _, l := range strings.Split(string(b), "\n") {
		f := strings.Fields(l)
		if len(f) < 3 {
			continue
		}
		ll := logLine{role: f[0], what: f[1]}
		switch f[1] {
		case "GOT":
			ll.arg = f[2]
			if len(f) > 3 {
				ll.t, _ = strconv.ParseInt(f[3], 10, 64)
			}
		case "START":
			ll.arg = f[2]
			if len(f) > 3 {
				ll.t, _ = strconv.ParseInt(f[3], 10, 64)
			}
		default:
			ll.t, _ = strconv.ParseInt(f[len(f)-1], 10, 64)
		}
		out = append(out, ll)
	}
	return out
}

func expectedMembers(c *rpCase) int {
	// 1 + kids + kids^2 ... to depth
	n, layer := 1, 1
	for d := 0; d < c.Depth; d++ {
		layer *= c.Kids
		n += layer
	}
	return n
}

func runRealProc(c fw.Case) fw.Result {
	var sp rpCase
	c.Params(&sp)
	r := fw.Result{NonTrivial: true}
	dir, err := os.MkdirTemp(sim.Scratch, "real-")
	if err != nil {
		r.Inconclusive = err.Error()
		return r
	}
	defer os.RemoveAll(dir)
	marker := fmt.Sprintf("m%s_%d_%d_%d", os.Getenv("PCVERIF_RUN_ID"), os.Getpid(), c.Idx, time.Now().UnixNano()%1000000)
	defer killMarked(marker)
	script := filepath.Join(dir, "member.sh")
	_ = os.WriteFile(script, []byte(memberScript), 0o755)
	logf := filepath.Join(dir, "trap.log")
	flag := filepath.Join(dir, "stop.flag")
	cmdOut := filepath.Join(dir, "stopcmd.out")
	workDir := filepath.Join(dir, "wd")
	_ = os.MkdirAll(workDir, 0o755)
	var y strings.Builder
	y.WriteString("version: \"0.5\"\nprocesses:\n")
	fmt.Fprintf(&y, "  tree:\n    command: %s\n    working_dir: %s\n", yq(script), yq(workDir))
	fmt.Fprintf(&y, "    environment:\n      - 'PCV_MARK=%s'\n      - 'PCV_LOG=%s'\n      - 'PCV_DEPTH=%d'\n      - 'PCV_KIDS=%d'\n", marker, logf, sp.Depth, sp.Kids)
	if sp.Ignore {
		y.WriteString("      - 'PCV_IGNORE=1'\n")
	}
	if sp.KidIgnore {
		y.WriteString("      - 'PCV_KID_IGNORE=1'\n")
	}
	if sp.DetachIO {
		y.WriteString("      - 'PCV_DETACH_IO=1'\n")
	}
	if sp.Command == "ok" {
		fmt.Fprintf(&y, "      - 'PCV_FLAG=%s'\n", flag)
	}
	y.WriteString("    shutdown:\n")
	fmt.Fprintf(&y, "      signal: %d\n", sp.Signal)
	if sp.ParentOnly {
		y.WriteString("      parent_only: true\n")
	}
	if sp.Timeout > 0 {
		fmt.Fprintf(&y, "      timeout_seconds: %d\n", sp.Timeout)
	}
	switch sp.Command {
	case "ok":
		fmt.Fprintf(&y, "      command: %s\n", yq(fmt.Sprintf("(env; echo PWD_IS=$(pwd)) > %s; touch %s; sleep 0.3", cmdOut, flag)))
	case "fail":
		fmt.Fprintf(&y, "      command: %s\n", yq(fmt.Sprintf("(env; echo PWD_IS=$(pwd)) > %s; exit 1", cmdOut)))
	case "hang":
		fmt.Fprintf(&y, "      command: %s\n", yq(fmt.Sprintf("(env; echo PWD_IS=$(pwd)) > %s; sleep 30", cmdOut)))
	case "nostart":
		// the working directory is removed once the tree runs: the shutdown
		// command cannot even be started
		fmt.Fprintf(&y, "      command: %s\n", yq(fmt.Sprintf("(env; echo PWD_IS=$(pwd)) > %s; touch %s", cmdOut, flag)))
	}
	if sp.Other {
		fmt.Fprintf(&y, "  plain:\n    command: 'sleep 300'\n    environment:\n      - 'PCV_MARK=%s'\n", marker)
	}
	members := expectedMembers(&sp)
	waitStarted := func() bool {
		deadline := time.Now().Add(8 * time.Second)
		for time.Now().Before(deadline) {
			n := 0
			for _, l := range readTrapLog(logf) {
				if l.what == "START" {
					n++
				}
			}
			if n >= members {
				return true
			}
			time.Sleep(10 * time.Millisecond)
		}
		return false
	}
	var stopRequested time.Time
	binaryMode := strings.HasPrefix(sp.Trigger, "SIG")
	var binExit = -999
	if binaryMode {
		bin := os.Getenv("PCVERIF_PC_BIN")
		if bin == "" {
			r.Inconclusive = "process-compose binary not built"
			return r
		}
		file, _ := sim.WriteTemp(dir, "pc.yaml", y.String())
		args := []string{"-t=false", "--no-server", "-f", file, "-L", filepath.Join(dir, "pc.log")}
		if sp.Ordered {
			args = append(args, "--ordered-shutdown")
		}
		cmd := exec.Command(bin, args...)
		cmd.Dir = dir
		cmd.Env = append(os.Environ(), "PC_DISABLE_TUI=1")
		cmd.SysProcAttr = &syscall.SysProcAttr{Setpgid: true}
		var out bytes.Buffer
		cmd.Stdout, cmd.Stderr = &out, &out
		if err := cmd.Start(); err != nil {
			r.Inconclusive = "cannot start the binary: " + err.Error()
			return r
		}
		if !waitStarted() {
			_ = cmd.Process.Kill()
			r.Inconclusive = "process tree did not come up under the binary: " + truncS(out.String(), 300)
			return r
		}
		time.Sleep(time.Duration(sp.DelayMs) * time.Millisecond)
		if sp.Command == "nostart" {
			_ = os.RemoveAll(workDir)
		}
		sig := map[string]syscall.Signal{"SIGTERM": syscall.SIGTERM, "SIGINT": syscall.SIGINT, "SIGHUP": syscall.SIGHUP}[sp.Trigger]
		stopRequested = time.Now()
		_ = cmd.Process.Signal(sig)
		done := make(chan error, 1)
		go func() { done <- cmd.Wait() }()
		if sp.Second != "" {
			sigs := map[string]syscall.Signal{"SIGTERM": syscall.SIGTERM, "SIGINT": syscall.SIGINT, "SIGHUP": syscall.SIGHUP}
			go func() {
				time.Sleep(time.Duration(sp.SecondMs) * time.Millisecond)
				_ = cmd.Process.Signal(sigs[sp.Second])
			}()
		}
		select {
		case err := <-done:
			binExit = 0
			if ee, ok := err.(*exec.ExitError); ok {
				binExit = ee.ExitCode()
			}
		case <-time.After(time.Duration(sp.Timeout+40) * time.Second):
			_ = cmd.Process.Kill()
			r.Add("C06", "binary-did-not-exit", "process-compose did not exit within %d s after %s", sp.Timeout+40, sp.Trigger)
			r.Witness = append(strings.Split(y.String(), "\n"), out.String())
			return r
		}
	} else {
		w := sim.NewWorld(c.Seed)
		sim.SetCurrent(w)
		defer sim.Forget(w)
		env, err := sim.NewEnv(w, y.String(), sim.EnvOpts{Ordered: sp.Ordered})
		if err != nil {
			r.Inconclusive = "load: " + err.Error()
			w.Close()
			return r
		}
		defer env.Cleanup()
		env.Start()
		if !waitStarted() {
			r.Inconclusive = "process tree did not come up"
			_ = env.Runner.ShutDownProject()
			return r
		}
		time.Sleep(time.Duration(sp.DelayMs) * time.Millisecond)
		if sp.Command == "nostart" {
			_ = os.RemoveAll(workDir)
		}
		stopRequested = time.Now()
		done := make(chan struct{})
		go func() {
			if sp.Trigger == "stop" {
				_ = env.Runner.StopProcess("tree")
			} else {
				_ = env.Runner.ShutDownProject()
			}
			close(done)
		}()
		select {
		case <-done:
		case <-time.After(time.Duration(sp.Timeout+40) * time.Second):
			r.Add("C06", "stop-did-not-return", "%s did not return within %d s", sp.Trigger, sp.Timeout+40)
			r.Witness = strings.Split(y.String(), "\n")
			r.Dirty = true
			return r
		}
		if sp.Trigger == "stop" {
			// the rest of the project is shut down afterwards
			_ = env.Runner.ShutDownProject()
		}
		if env.WaitRun(5*time.Second, 20*time.Second) != sim.RunReturned {
			r.Add("C06", "run-did-not-return", "Run() did not return after %s", sp.Trigger)
			r.Dirty = true
		}
	}
	// --- oracles
	// let the signalled members finish writing their trap lines (bounded)
	// positive evidence only: every member that is expected to be signalled has
	// either logged a signal or is gone; the bound is a watchdog, not a verdict
	// on speed (a loaded machine delays bash traps by hundreds of ms)
	stopReturned := time.Now()
	wantSig := strconv.Itoa(effSignal(sp.Signal))
	settle := time.Now().Add(30 * time.Second)
	for {
		pids, got := map[string]string{}, map[string]bool{}
		for _, l := range readTrapLog(logf) {
			switch l.what {
			case "START":
				pids[l.role] = l.arg
			case "GOT":
				got[l.role] = true
			}
		}
		pending := false
		for role, pid := range pids {
			if got[role] || sp.Command != "" {
				continue
			}
			expect := role == "parent" || (!sp.ParentOnly && wantSig != "2" && wantSig != "3")
			if expect && pidAlive(pid) {
				pending = true
			}
		}
		if !pending || time.Now().After(settle) {
			break
		}
		time.Sleep(10 * time.Millisecond)
	}
	if sp.ParentOnly {
		time.Sleep(300 * time.Millisecond) // children signalled by mistake get a moment to log it
	}
	lines := readTrapLog(logf)
	want := strconv.Itoa(effSignal(sp.Signal))
	parentGot := map[string]bool{}
	kidsGot := map[string]bool{}
	for _, l := range lines {
		if l.what != "GOT" {
			continue
		}
		if l.role == "parent" {
			parentGot[l.arg] = true
		} else {
			kidsGot[l.arg] = true
		}
	}
	usesSignal := sp.Command == "" // with a shutdown command the signal is not sent first
	if usesSignal {
		r.Count("signal_deliveries_checked", 1)
		if !parentGot[want] {
			r.Add("C06", "wrong-signal", "configured signal %d (effective %s): the parent's trap log shows %v", sp.Signal, want, keysOf(parentGot))
		}
		for s := range parentGot {
			if s != want {
				r.Add("C06", "wrong-signal", "configured signal %d (effective %s): the parent also received signal %s", sp.Signal, want, s)
			}
		}
		if sp.Depth > 0 {
			if sp.ParentOnly && len(kidsGot) > 0 {
				r.Add("C06", "parent-only-violated", "parent_only is set but children received %v", keysOf(kidsGot))
			}
			if !sp.ParentOnly && !kidsGot[want] && want != "2" && want != "3" {
				r.Add("C06", "group-not-signalled", "the children did not receive signal %s (whole process group expected)", want)
			}
		}
	}
	// SIGKILL escalation: never earlier than timeout_seconds after the stop request
	if sp.Timeout > 0 && ((sp.Ignore && effSignal(sp.Signal) == 15) || sp.KidIgnore) && usesSignal && !sp.ParentOnly {
		// the ignoring member dies only by SIGKILL: poll for its death
		deadline := stopRequested.Add(time.Duration(sp.Timeout)*time.Second + 20*time.Second)
		var gone time.Time
		for time.Now().Before(deadline) {
			if len(procsWithMarkerExcept(marker, "plain")) == 0 {
				gone = time.Now()
				break
			}
			time.Sleep(5 * time.Millisecond)
		}
		r.Count("kill_escalations_checked", 1)
		if gone.IsZero() {
			key := "no-sigkill-after-timeout"
			if sp.KidIgnore && !(sp.Ignore && effSignal(sp.Signal) == 15) {
				key = "no-sigkill-after-timeout:ignoring-descendant-of-exited-parent"
			}
			r.Add("C06", key, "a member ignoring SIGTERM is still alive %d s after the stop request (timeout_seconds %d)", sp.Timeout+20, sp.Timeout)
		}
	}
	if sp.Timeout > 0 && sp.Ignore && usesSignal && effSignal(sp.Signal) == 15 {
		// lower bound: the parent (ignoring SIGTERM) must have lived at least timeout seconds after the request
		// (its death is observed through the return of the stop call)
		lived := stopReturned.Sub(stopRequested)
		if lived < time.Duration(sp.Timeout)*time.Second-50*time.Millisecond {
			r.Add("C06", "sigkill-too-early", "the stop returned %.2f s after the request although the parent ignores SIGTERM and timeout_seconds is %d", lived.Seconds(), sp.Timeout)
		}
	}
	// shutdown command: environment and working directory
	if sp.Command != "" && sp.Command != "nostart" {
		b, err := os.ReadFile(cmdOut)
		r.Count("shutdown_commands_checked", 1)
		if err != nil {
			r.Add("C06", "shutdown-command-not-run", "the configured shutdown command did not run (%v)", err)
		} else {
			out := string(b)
			if !strings.Contains(out, "PCV_MARK="+marker) {
				r.Add("C06", "shutdown-command-env", "the shutdown command did not get the process' environment (PCV_MARK missing)")
			}
			if !strings.Contains(out, "PC_PROC_NAME=tree") {
				r.Add("C06", "shutdown-command-env", "the shutdown command did not get PC_PROC_NAME")
			}
			if !strings.Contains(out, "PWD_IS="+workDir) {
				r.Add("C06", "shutdown-command-dir", "the shutdown command did not run in the process' working directory")
			}
		}
		if sp.Command == "ok" {
			// the process exits on its own when the flag appears: no signal must have been needed
			flagExit := false
			for _, l := range lines {
				if l.role == "parent" && l.what == "FLAGEXIT" {
					flagExit = true
				}
			}
			if !flagExit && len(parentGot) > 0 {
				r.Add("C06", "signal-despite-successful-command", "the shutdown command succeeded but the parent was signalled %v", keysOf(parentGot))
			}
		}
	}
	// no survivor (whole-group mode)
	if !sp.ParentOnly && sp.Command != "ok" || binaryMode && !sp.ParentOnly {
		deadline := time.Now().Add(5 * time.Second)
		var left []int
		for {
			left = procsWithMarker(marker)
			if len(left) == 0 || time.Now().After(deadline) {
				break
			}
			time.Sleep(10 * time.Millisecond)
		}
		r.Count("survivor_scans", 1)
		if len(left) > 0 && !(sp.Command == "ok") {
			var desc []string
			for _, pid := range left {
				cl, _ := os.ReadFile(fmt.Sprintf("/proc/%d/cmdline", pid))
				desc = append(desc, fmt.Sprintf("%d:%s", pid, strings.ReplaceAll(string(cl), "\x00", " ")))
			}
			key := "survivors"
			if sp.KidIgnore && !(sp.Ignore && effSignal(sp.Signal) == 15) {
				key = "survivors:ignoring-descendant-of-exited-parent"
			}
			r.Add("C06", key, "after %s %d managed processes are still alive: %v", sp.Trigger, len(left), desc)
		}
	}
	if binaryMode && binExit != 0 {
		r.Add("C06", "binary-exit-status", "process-compose exited with status %d after %s", binExit, sp.Trigger)
	}
	if len(r.Findings) > 0 {
		r.Witness = append(strings.Split(y.String(), "\n"), "--- trap log ---")
		b, _ := os.ReadFile(logf)
		r.Witness = append(r.Witness, strings.Split(string(b), "\n")...)
	}
	r.Sig = sim.Hash(fmt.Sprintf("%+v", sp))
	if c.Idx < 2 {
		r.Sample = map[string]any{"case": sp, "trap_log_lines": len(lines)}
	}
	return r
}

func procsWithMarkerExcept(marker, cmdSubstr string) []int {
	var out []int
	for _, pid := range procsWithMarker(marker) {
		cl, _ := os.ReadFile(fmt.Sprintf("/proc/%d/cmdline", pid))
		if strings.Contains(string(cl), "sleep\x00300") {
			continue
		}
		out = append(out, pid)
	}
	return out
}

func keysOf(m map[string]bool) []string {
	var out []string
	for k := range m {
		out = append(out, k)
	}
	return out
}

func init() {
	fw.Register(&fw.Property{
		ID: "C06", Level: "exploration",
		Rule:        "real bash process trees (parent, children, grandchildren; members ignoring SIGTERM; children with detached stdio) whose traps log every received signal, run by the real supervisor: grid signal in {1,2,3,10,12,14,15,30,31,0,-1,32,77} x parent_only x timeout {unset,1,2} x shutdown command {none, succeeds, fails, hangs, cannot be started}, optionally a second OS signal 50-650 ms after the first; stop triggers: StopProcess / ShutDownProject in-process at random instants and SIGTERM / SIGINT / SIGHUP sent to the built process-compose binary; oracles: trap logs (which signal, who received it), /proc scan for a per-case environment marker (survivors), SIGKILL only after timeout_seconds (lower bound) and eventually, shutdown command environment and directory, binary exit status; distinct = parameter combination",
		Assumptions: []string{"descendants that leave the process group are out of scope", "signals 9 and 19 cannot be trapped and are not in the grid", "/proc polled up to 5 s for survivors (load tolerance only)"},
		Gen: func(seed int64, tier string) []fw.Case {
			var cs []fw.Case
			for i := 0; i < tierN(tier, 200, 2400); i++ {
				s := fw.SubSeed(seed, i)
				cs = append(cs, fw.MkCase("C06", "tree", s, genRpCase(fw.Rand(s), i)))
			}
			return cs
		},
		Run: runRealProc,
		// children killed by a watchdog cannot sweep their process trees
		Cleanup: func() { killMarkedPrefix("m" + fmt.Sprint(os.Getpid()) + "_") },
		// real processes may legitimately keep a shutdown (and the registry lock
		// it holds) waiting: a watchdog dump is never a verdict here
		WatchdogFinding: func(string) *fw.Finding { return nil },
		Workers:         func(string) int { return 32 },
		PerCaseTimeout:  180 * time.Second,
	})
}
