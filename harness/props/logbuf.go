package props

import (
	"fmt"
	"math"
	"math/rand"
	"strings"
	"sync"
	"sync/atomic"
	"time"

	"github.com/anishathalye/porcupine"
	"github.com/f1bonacc1/process-compose/src/pclog"

	"pcverif/fw"
)

// ------------------------------------------------------------------ reference model

const lbSlack = 100

type refBuf struct {
	size int
	buf  []string
}

func (r *refBuf) write(s string) {
	r.buf = append(r.buf, s)
	if len(r.buf) > r.size+lbSlack {
		r.buf = r.buf[lbSlack:]
	}
}

// window is the statement's reading of (offset from the end, limit).
func refWindow(buf []string, off, lim int) []string {
	n := len(buf)
	if off < 0 {
		off = 0
	}
	if off > n {
		off = n
	}
	start := n - off
	end := n
	if lim >= 1 && lim < n-start {
		end = start + lim
	}
	return buf[start:end]
}

var lbExtremes = []int{math.MaxInt, math.MaxInt - 1, math.MaxInt - 7, math.MinInt, math.MinInt + 1, math.MaxInt32, math.MaxInt32 + 1, math.MinInt32, 1 << 62, -(1 << 62)}

func eqStrs(a, b []string) bool {
	if len(a) != len(b) {
		return false
	}
	for i := range a {
		if a[i] != b[i] {
			return false
		}
	}
	return true
}

func safeRange(b *pclog.ProcessLogBuffer, off, lim int) (res []string, panicked any) {
	defer func() {
		if p := recover(); p != nil {
			panicked = p
		}
	}()
	res = b.GetLogRange(off, lim)
	return
}

type heldWin struct {
	win, cp []string
	at, atW int
}

type lbSeqSpec struct {
	Size   int `json:"size"`
	Writes int `json:"writes"`
	Step   int `json:"step"` // check windows every Step writes
}

func runLogSeq(c fw.Case) fw.Result {
	var sp lbSeqSpec
	c.Params(&sp)
	r := fw.Result{NonTrivial: true}
	b := pclog.NewLogBuffer(sp.Size)
	ref := &refBuf{size: sp.Size}
	var all []string
	var helds []heldWin
	checks := 0
	shapes := map[string]bool{}
	for w := 0; w <= sp.Writes; w++ {
		if w > 0 {
			line := fmt.Sprintf("L%d", w)
			b.Write(line)
			ref.write(line)
			all = append(all, line)
		}
		n := len(ref.buf)
		if got := b.GetLogLength(); got != n {
			r.Add("C18", "length", "size %d after %d writes: GetLogLength()=%d, reference %d", sp.Size, w, got, n)
			break
		}
		// retention: most recent lines, >= size once written, <= size+slack
		want := len(all)
		if want > sp.Size {
			want = sp.Size
		}
		if n < want || n > sp.Size+lbSlack {
			r.Add("C18", "retention", "size %d after %d writes holds %d lines (want >= %d and <= %d)", sp.Size, w, n, want, sp.Size+lbSlack)
		}
		if sp.Step > 1 && w%sp.Step != 0 && w != sp.Writes {
			continue
		}
		for off := -2; off <= n+3; off++ {
			for lim := -2; lim <= n+3; lim++ {
				got, p := safeRange(b, off, lim)
				checks++
				if p != nil {
					r.Add("C18", "range-panic", "size %d, %d lines: GetLogRange(%d,%d) panicked: %v", sp.Size, n, off, lim, p)
					continue
				}
				want := refWindow(ref.buf, off, lim)
				if !eqStrs(got, want) {
					r.Add("C18", "range-window", "size %d, %d lines: GetLogRange(%d,%d) returned %d lines %v, reference window %v", sp.Size, n, off, lim, len(got), trunc(got), trunc(want))
				}
				if len(r.Findings) > 5 {
					goto done
				}
			}
		}
		// extreme parameters (as a client may send them): near the integer limits
		for _, off := range append(lbExtremes, 0, 1, n-1, n, n/2) {
			for _, lim := range append(lbExtremes, 0, 1, n) {
				got, p := safeRange(b, off, lim)
				checks++
				if p != nil {
					r.Add("C18", "range-panic", "size %d, %d lines: GetLogRange(%d,%d) panicked: %v", sp.Size, n, off, lim, p)
					continue
				}
				if want := refWindow(ref.buf, off, lim); !eqStrs(got, want) {
					r.Add("C18", "range-window", "size %d, %d lines: GetLogRange(%d,%d) returned %d lines %v, reference window %v", sp.Size, n, off, lim, len(got), trunc(got), trunc(want))
				}
			}
		}
		if len(r.Findings) > 5 {
			goto done
		}
		// windows handed out earlier must not change when the log moves on
		for hi := 0; hi < len(helds); hi++ {
			h := &helds[hi]
			if !eqStrs(h.win, h.cp) {
				r.Add("C18", "returned-window-mutated", "size %d: a window returned by GetLogRange at %d lines changed its content after %d more writes: %v -> %v", sp.Size, h.at, w-h.atW, trunc(h.cp), trunc(h.win))
				helds = nil
				break
			}
		}
		if w%37 == 5 {
			if win, p := safeRange(b, n, 0); p == nil && len(win) > 0 {
				helds = append(helds, heldWin{win: win, cp: append([]string(nil), win...), at: n, atW: w})
				if len(helds) > 8 {
					helds = helds[1:]
				}
			}
		}
		// the retained lines are the most recent ones, in order
		whole, _ := safeRange(b, n+10, 0)
		if !eqStrs(whole, all[len(all)-n:]) {
			r.Add("C18", "retention-order", "size %d after %d writes: retained lines are not the %d most recent ones", sp.Size, w, n)
		}
		shapes[fmt.Sprintf("%d/%d", sp.Size, n)] = true
	}
done:
	r.Count("window_checks", checks)
	r.Sig = fmt.Sprintf("seq:%d:%d", sp.Size, sp.Writes)
	if c.Idx < 3 {
		r.Sample = map[string]any{"size": sp.Size, "writes": sp.Writes, "window_checks": checks}
	}
	return r
}

func trunc(s []string) []string {
	if len(s) > 6 {
		return append(append([]string{}, s[:3]...), "...", s[len(s)-1])
	}
	return s
}

// ------------------------------------------------------------------ linearizability

type lbOp struct {
	Kind string // "w" | "r" | "l"
	Arg  string // written line
	Off  int
	Lim  int
}

type lbOut struct {
	Lines string
	Len   int
}

func lbModel(size int) porcupine.Model {
	return porcupine.Model{
		Init: func() interface{} { return "" },
		Step: func(state, input, output interface{}) (bool, interface{}) {
			st := state.(string)
			var buf []string
			if st != "" {
				buf = strings.Split(st, ",")
			}
			in := input.(lbOp)
			switch in.Kind {
			case "w":
				buf = append(buf, in.Arg)
				if len(buf) > size+lbSlack {
					buf = buf[lbSlack:]
				}
				return true, strings.Join(buf, ",")
			case "r":
				want := strings.Join(refWindow(buf, in.Off, in.Lim), ",")
				return output.(lbOut).Lines == want, st
			case "l":
				return output.(lbOut).Len == len(buf), st
			}
			return false, st
		},
		Equal: func(a, b interface{}) bool { return a.(string) == b.(string) },
		DescribeOperation: func(input, output interface{}) string {
			in := input.(lbOp)
			switch in.Kind {
			case "w":
				return "write(" + in.Arg + ")"
			case "r":
				return fmt.Sprintf("range(%d,%d)->[%s]", in.Off, in.Lim, output.(lbOut).Lines)
			}
			return fmt.Sprintf("len->%d", output.(lbOut).Len)
		},
	}
}

type lbLinSpec struct {
	Size    int `json:"size"`
	Writers int `json:"writers"`
	Readers int `json:"readers"`
	PerProc int `json:"per_proc"`
	Prefill int `json:"prefill"`
}

func runLogLin(c fw.Case) fw.Result {
	var sp lbLinSpec
	c.Params(&sp)
	r := fw.Result{NonTrivial: true}
	b := pclog.NewLogBuffer(sp.Size)
	var ops []porcupine.Operation
	var mu sync.Mutex
	t0 := time.Now()
	now := func() int64 { return int64(time.Since(t0)) }
	// prefill sequentially (part of the history)
	for i := 0; i < sp.Prefill; i++ {
		line := fmt.Sprintf("p%d", i)
		call := now()
		b.Write(line)
		ops = append(ops, porcupine.Operation{ClientId: 0, Input: lbOp{Kind: "w", Arg: line}, Call: call, Output: lbOut{}, Return: now()})
	}
	var wg sync.WaitGroup
	start := make(chan struct{})
	var panics atomic.Int32
	for w := 0; w < sp.Writers; w++ {
		wg.Add(1)
		go func(w int) {
			defer wg.Done()
			rng := rand.New(rand.NewSource(c.Seed + int64(w)*7919))
			<-start
			for i := 0; i < sp.PerProc; i++ {
				line := fmt.Sprintf("w%d_%d", w, i)
				call := now()
				b.Write(line)
				ret := now()
				mu.Lock()
				ops = append(ops, porcupine.Operation{ClientId: 1 + w, Input: lbOp{Kind: "w", Arg: line}, Call: call, Output: lbOut{}, Return: ret})
				mu.Unlock()
				if rng.Intn(3) == 0 {
					time.Sleep(time.Duration(rng.Intn(50)) * time.Microsecond)
				}
			}
		}(w)
	}
	for q := 0; q < sp.Readers; q++ {
		wg.Add(1)
		go func(q int) {
			defer wg.Done()
			rng := rand.New(rand.NewSource(c.Seed + 100 + int64(q)*104729))
			<-start
			for i := 0; i < sp.PerProc; i++ {
				if rng.Intn(3) == 0 {
					call := now()
					n := b.GetLogLength()
					ret := now()
					mu.Lock()
					ops = append(ops, porcupine.Operation{ClientId: 1 + sp.Writers + q, Input: lbOp{Kind: "l"}, Call: call, Output: lbOut{Len: n}, Return: ret})
					mu.Unlock()
				} else {
					off, lim := rng.Intn(sp.Size+8)-1, rng.Intn(6)-1
					call := now()
					res, p := safeRange(b, off, lim)
					ret := now()
					if p != nil {
						panics.Add(1)
						continue
					}
					cp := strings.Join(res, ",")
					mu.Lock()
					ops = append(ops, porcupine.Operation{ClientId: 1 + sp.Writers + q, Input: lbOp{Kind: "r", Off: off, Lim: lim}, Call: call, Output: lbOut{Lines: cp}, Return: ret})
					mu.Unlock()
				}
				if rng.Intn(3) == 0 {
					time.Sleep(time.Duration(rng.Intn(50)) * time.Microsecond)
				}
			}
		}(q)
	}
	close(start)
	wg.Wait()
	if panics.Load() > 0 {
		r.Add("C18", "range-panic-concurrent", "%d GetLogRange calls panicked under concurrent writes", panics.Load())
	}
	res, info := porcupine.CheckOperationsVerbose(lbModel(sp.Size), ops, 60*time.Second)
	r.Count("lin_ops", len(ops))
	switch res {
	case porcupine.Ok:
	case porcupine.Unknown:
		r.Inconclusive = "linearizability checker timed out"
	case porcupine.Illegal:
		r.Add("C18", "not-linearizable", "history of %d writes/range/length operations on a size-%d buffer is not linearizable against the sequential buffer model", len(ops), sp.Size)
		_ = info
		for i, o := range ops {
			if i > 80 {
				break
			}
			r.Witness = append(r.Witness, fmt.Sprintf("client %d [%d..%d] %s", o.ClientId, o.Call, o.Return, lbModel(sp.Size).DescribeOperation(o.Input, o.Output)))
		}
	}
	// distinctness: order of completion of the operations by client
	var sb strings.Builder
	for _, o := range ops {
		fmt.Fprintf(&sb, "%d", o.ClientId)
	}
	r.Sig = "lin:" + fmt.Sprint(len(ops)) + ":" + hashStr(sb.String())
	return r
}

func hashStr(s string) string {
	var h uint64 = 14695981039346656037
	for i := 0; i < len(s); i++ {
		h ^= uint64(s[i])
		h *= 1099511628211
	}
	return fmt.Sprintf("%x", h)
}

// ------------------------------------------------------------------ followers

type follower struct {
	id         string
	tail       int
	mu         sync.Mutex
	snap       []string
	lines      []string
	gotSnap    bool
	afterUnsub int
	unsub      bool
}

func (f *follower) WriteString(s string) (int, error) {
	f.mu.Lock()
	defer f.mu.Unlock()
	if f.unsub {
		f.afterUnsub++
	}
	f.lines = append(f.lines, s)
	return len(s), nil
}
func (f *follower) SetLines(l []string) {
	f.mu.Lock()
	defer f.mu.Unlock()
	f.snap = append([]string(nil), l...)
	f.gotSnap = true
}
func (f *follower) GetTailLength() int  { return f.tail }
func (f *follower) GetUniqueID() string { return f.id }

type lbFolSpec struct {
	Size      int `json:"size"`
	Writers   int `json:"writers"`
	PerWriter int `json:"per_writer"`
	Followers int `json:"followers"`
}

func runLogFollow(c fw.Case) fw.Result {
	var sp lbFolSpec
	c.Params(&sp)
	r := fw.Result{NonTrivial: true}
	// size large enough that nothing is trimmed: the final buffer is the global order
	b := pclog.NewLogBuffer(sp.Size)
	rng := rand.New(rand.NewSource(c.Seed))
	var wg sync.WaitGroup
	start := make(chan struct{})
	for w := 0; w < sp.Writers; w++ {
		wg.Add(1)
		go func(w int) {
			defer wg.Done()
			lr := rand.New(rand.NewSource(c.Seed + int64(w)))
			<-start
			for i := 0; i < sp.PerWriter; i++ {
				b.Write(fmt.Sprintf("w%d_%d", w, i))
				if lr.Intn(4) == 0 {
					time.Sleep(time.Duration(lr.Intn(30)) * time.Microsecond)
				}
			}
		}(w)
	}
	fols := make([]*follower, sp.Followers)
	unsubAt := make([]bool, sp.Followers)
	var fwg sync.WaitGroup
	for i := range fols {
		fols[i] = &follower{id: fmt.Sprintf("f%d", i), tail: []int{0, 1, 3, 10, 1000}[rng.Intn(5)]}
		unsubAt[i] = rng.Intn(3) == 0
		delay := time.Duration(rng.Intn(400)) * time.Microsecond
		fwg.Add(1)
		go func(f *follower, early bool, delay time.Duration) {
			defer fwg.Done()
			<-start
			time.Sleep(delay)
			b.GetLogsAndSubscribe(f)
			if early {
				time.Sleep(delay)
				b.UnSubscribe(f)
				f.mu.Lock()
				f.unsub = true
				f.mu.Unlock()
			}
		}(fols[i], unsubAt[i], delay)
	}
	close(start)
	wg.Wait()
	fwg.Wait()
	final, _ := safeRange(b, 1<<30, 0)
	pos := map[string]int{}
	for i, l := range final {
		pos[l] = i
	}
	total := sp.Writers * sp.PerWriter
	if len(final) != total {
		r.Add("C18", "follow-final", "buffer holds %d lines after %d writes (size %d)", len(final), total, sp.Size)
	}
	for i, f := range fols {
		f.mu.Lock()
		seq := append(append([]string(nil), f.snap...), f.lines...)
		snapLen := len(f.snap)
		after := f.afterUnsub
		f.mu.Unlock()
		if !f.gotSnap {
			r.Add("C18", "follow-no-snapshot", "follower %d never received its tail snapshot", i)
			continue
		}
		if f.tail > 0 && snapLen > f.tail {
			r.Add("C18", "follow-tail-too-long", "follower %d asked for a tail of %d and got %d lines", i, f.tail, snapLen)
		}
		if f.tail == 0 && snapLen != 0 {
			r.Add("C18", "follow-tail-too-long", "follower %d asked for no tail and got %d lines", i, snapLen)
		}
		if after > 0 {
			r.Add("C18", "follow-after-unsubscribe", "follower %d received %d lines after UnSubscribe returned", i, after)
		}
		// seq must be a contiguous run of the global order, without gap/duplicate
		for k := 1; k < len(seq); k++ {
			pa, oka := pos[seq[k-1]]
			pb, okb := pos[seq[k]]
			if !oka || !okb || pb != pa+1 {
				what := "gap"
				if okb && oka && pb <= pa {
					what = "duplicate-or-reorder"
				}
				at := "stream"
				if k == snapLen {
					at = "hand-over"
				}
				r.Add("C18", "follow-"+what, "follower %d (tail %d): %s at the %s: %q is followed by %q (positions %d -> %d in the log)", i, f.tail, what, at, seq[k-1], seq[k], pa, pb)
				break
			}
		}
		if !unsubAt[i] && len(seq) > 0 {
			if seq[len(seq)-1] != final[len(final)-1] {
				r.Add("C18", "follow-lost-tail", "follower %d stayed subscribed but its last line is %q, the log ends with %q", i, seq[len(seq)-1], final[len(final)-1])
			}
		}
		if !unsubAt[i] && len(seq) == 0 && f.tail > 0 && total > 0 {
			// subscribed with a tail and received nothing at all although lines exist
			r.Add("C18", "follow-lost-tail", "follower %d received nothing", i)
		}
		r.Count("follower_lines", len(seq))
	}
	r.Count("followers", len(fols))
	var sb strings.Builder
	for _, f := range fols {
		fmt.Fprintf(&sb, "%d:%d,", f.tail, len(f.snap))
	}
	r.Sig = "fol:" + hashStr(sb.String()+strings.Join(final[:min(len(final), 30)], ""))
	return r
}

func init() {
	fw.Register(&fw.Property{
		ID: "C18", Level: "exploration",
		Rule:        "sequential: every (offset, limit) in [-2, len+3]^2 against the reference window after every write, for buffer sizes 0-3 and 0..size+230 writes (complete for that bound), plus larger sizes sampled every few writes; concurrent: writer/range/length histories checked for linearizability with porcupine against a sequential buffer model (unique line ids); followers subscribing with a tail at random instants while writers run must see tail ++ every later line exactly once in the log's order, nothing after UnSubscribe; websocket followers through the real REST server (reading, stalled); distinct = buffer shape (sequential), per-client completion order (histories), follower tail/snapshot pattern",
		Assumptions: []string{"the statement's window reading: offset counts from the end, limit<1 means 'to the end', everything clamped", "slack of 100 lines is the documented bound for 'never unboundedly more'", "porcupine timeout (60 s) = inconclusive"},
		Exhaustive:  func(string) bool { return false },
		Gen: func(seed int64, tier string) []fw.Case {
			var cs []fw.Case
			for size := 0; size <= 3; size++ {
				cs = append(cs, fw.MkCase("C18", "seq-exhaustive", int64(size), lbSeqSpec{Size: size, Writes: size + 230, Step: 1}))
				// long run with sparse window checks: several trims in a row (aliasing of returned windows)
				cs = append(cs, fw.MkCase("C18", "seq-long", int64(size), lbSeqSpec{Size: size * 7, Writes: size*7 + 650, Step: 53}))
			}
			rng := fw.Rand(seed)
			for i := 0; i < tierN(tier, 6, 40); i++ {
				size := 4 + rng.Intn(60)
				cs = append(cs, fw.MkCase("C18", "seq-sampled", fw.SubSeed(seed, i), lbSeqSpec{Size: size, Writes: size + 120 + rng.Intn(200), Step: 17 + rng.Intn(30)}))
			}
			for i := 0; i < tierN(tier, 300, 3000); i++ {
				s := fw.SubSeed(seed, 1000+i)
				r2 := fw.Rand(s)
				cs = append(cs, fw.MkCase("C18", "linearizability", s, lbLinSpec{Size: r2.Intn(4), Writers: 1 + r2.Intn(3), Readers: 1 + r2.Intn(3), PerProc: 4 + r2.Intn(5), Prefill: r2.Intn(3) * 50}))
			}
			for i := 0; i < tierN(tier, 400, 4000); i++ {
				s := fw.SubSeed(seed, 100000+i)
				r2 := fw.Rand(s)
				cs = append(cs, fw.MkCase("C18", "followers", s, lbFolSpec{Size: 5000, Writers: 1 + r2.Intn(3), PerWriter: 50 + r2.Intn(300), Followers: 1 + r2.Intn(4)}))
			}
			cs = append(cs, wsFollowCases(seed, tier)...)
			return cs
		},
		Run: func(c fw.Case) fw.Result {
			switch c.Kind {
			case "seq-exhaustive", "seq-sampled", "seq-long":
				return runLogSeq(c)
			case "linearizability":
				return runLogLin(c)
			case "followers":
				return runLogFollow(c)
			default:
				return runWsFollow(c)
			}
		},
		Workers: func(string) int { return 16 },
	})
}
