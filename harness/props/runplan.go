package props

import (
	"fmt"
	"os"
	"sort"
	"strings"
	"time"

	"github.com/f1bonacc1/process-compose/src/admitter"
	"github.com/f1bonacc1/process-compose/src/loader"
	"github.com/f1bonacc1/process-compose/src/types"

	"pcverif/fw"
	"pcverif/sim"
)

// ------------------------------------------------------------------ C07

type rpNode struct {
	Name       string   `json:"name"`
	Deps       []string `json:"deps,omitempty"`
	Disabled   bool     `json:"disabled,omitempty"`
	Foreground bool     `json:"foreground,omitempty"`
	Namespace  string   `json:"ns,omitempty"`
	Replicas   int      `json:"replicas,omitempty"`
}

type rpSpec struct {
	Nodes      []rpNode `json:"nodes"`
	Strict     bool     `json:"strict,omitempty"`
	ToRun      []string `json:"to_run,omitempty"`
	NoDeps     bool     `json:"no_deps,omitempty"`
	Namespaces []string `json:"namespaces,omitempty"`
	Run        bool     `json:"run,omitempty"` // also run the project and observe launches
	Loads      int      `json:"loads,omitempty"`
}

func rpYAML(sp *rpSpec, worldID int) string {
	var b strings.Builder
	b.WriteString("version: \"0.5\"\n")
	if sp.Strict {
		b.WriteString("is_strict: true\n")
	}
	b.WriteString("processes:\n")
	for _, n := range sp.Nodes {
		fmt.Fprintf(&b, "  %s:\n    command: %s\n", n.Name, yq(sim.FormatCommand(sim.Script{W: worldID}, "")))
		if n.Disabled {
			b.WriteString("    disabled: true\n")
		}
		if n.Foreground {
			b.WriteString("    is_foreground: true\n")
		}
		if n.Namespace != "" {
			fmt.Fprintf(&b, "    namespace: %s\n", n.Namespace)
		}
		if n.Replicas > 1 {
			fmt.Fprintf(&b, "    replicas: %d\n", n.Replicas)
		}
		if len(n.Deps) > 0 {
			b.WriteString("    depends_on:\n")
			for _, d := range n.Deps {
				fmt.Fprintf(&b, "      %s:\n        condition: process_completed\n", d)
			}
		}
	}
	return b.String()
}

// reference: cycle / dangling detection (iterative colouring)
func rpCyclicOrDangling(sp *rpSpec) (cyclic, dangling bool) {
	idx := map[string]int{}
	for i, n := range sp.Nodes {
		idx[n.Name] = i
	}
	for _, n := range sp.Nodes {
		for _, d := range n.Deps {
			if _, ok := idx[d]; !ok {
				dangling = true
			}
		}
	}
	// Kahn
	indeg := make([]int, len(sp.Nodes))
	for _, n := range sp.Nodes {
		for _, d := range n.Deps {
			if _, ok := idx[d]; ok {
				indeg[idx[n.Name]]++
			}
		}
	}
	removed := 0
	queue := []int{}
	for i, d := range indeg {
		if d == 0 {
			queue = append(queue, i)
		}
	}
	for len(queue) > 0 {
		v := queue[0]
		queue = queue[1:]
		removed++
		for i, n := range sp.Nodes {
			for _, d := range n.Deps {
				if d == sp.Nodes[v].Name {
					indeg[i]--
					if indeg[i] == 0 {
						queue = append(queue, i)
					}
				}
			}
		}
	}
	cyclic = removed != len(sp.Nodes)
	return
}

func rpClosure(sp *rpSpec, req []string) map[string]bool {
	byName := map[string]*rpNode{}
	for i := range sp.Nodes {
		byName[sp.Nodes[i].Name] = &sp.Nodes[i]
	}
	out := map[string]bool{}
	var visit func(n string)
	visit = func(n string) {
		if out[n] || byName[n] == nil {
			return
		}
		out[n] = true
		for _, d := range byName[n].Deps {
			visit(d)
		}
	}
	for _, r := range req {
		visit(r)
	}
	return out
}

func replicaNames(n *rpNode) []string {
	if n.Replicas <= 1 {
		return []string{n.Name}
	}
	w := len(fmt.Sprint(n.Replicas - 1))
	if n.Replicas == 10 || n.Replicas == 100 {
		w = len(fmt.Sprint(n.Replicas)) // width is 1+floor(log10(replicas))
	}
	var out []string
	for k := 0; k < n.Replicas; k++ {
		out = append(out, fmt.Sprintf("%s-%0*d", n.Name, w, k))
	}
	return out
}

func runRunPlan(c fw.Case) fw.Result {
	var sp rpSpec
	c.Params(&sp)
	r := fw.Result{}
	w := sim.NewWorld(c.Seed)
	sim.SetCurrent(w)
	defer sim.Forget(w)
	defer w.Close()
	dir, err := os.MkdirTemp(sim.Scratch, "rp-")
	if err != nil {
		r.Inconclusive = err.Error()
		return r
	}
	defer os.RemoveAll(dir)
	file, _ := sim.WriteTemp(dir, "pc.yaml", rpYAML(&sp, w.ID))
	cyclic, dangling := rpCyclicOrDangling(&sp)
	wantErr := cyclic || dangling
	loads := sp.Loads
	if loads == 0 {
		loads = 3
	}
	var prj *types.Project
	for i := 0; i < loads; i++ {
		opts := &loader.LoaderOptions{FileNames: []string{file}, IsInternalLoader: true}
		opts.DisableDotenv(true)
		if len(sp.Namespaces) > 0 {
			opts.AddAdmitter(&admitter.NamespaceAdmitter{EnabledNamespaces: sp.Namespaces})
		}
		p, err := loader.Load(opts)
		r.Count("loads", 1)
		if (err != nil) != wantErr {
			if wantErr {
				what := "cyclic"
				if dangling {
					what = "dangling-dependency"
				}
				r.Add("C07", "accepted-"+what, "load %d accepted a %s configuration", i, what)
			} else {
				r.Add("C07", "rejected-valid", "load %d rejected an acyclic configuration without undefined dependencies: %v", i, err)
			}
			r.Witness = strings.Split(rpYAML(&sp, 0), "\n")
			return r
		}
		if err == nil {
			prj = p
		}
	}
	sig := fmt.Sprintf("n%d:c%v:d%v:", len(sp.Nodes), cyclic, dangling)
	for _, n := range sp.Nodes {
		sig += fmt.Sprintf("%s<%s|", n.Name, strings.Join(n.Deps, ","))
	}
	r.Sig = sim.Hash(sig + strings.Join(sp.ToRun, ",") + fmt.Sprint(sp.NoDeps, sp.Namespaces))
	r.NonTrivial = len(sp.Nodes) > 1
	if wantErr || prj == nil {
		return r
	}
	byName := map[string]*rpNode{}
	for i := range sp.Nodes {
		byName[sp.Nodes[i].Name] = &sp.Nodes[i]
	}
	inNs := func(n *rpNode) bool {
		if len(sp.Namespaces) == 0 {
			return true
		}
		ns := n.Namespace
		if ns == "" {
			ns = "default"
		}
		for _, x := range sp.Namespaces {
			if x == ns {
				return true
			}
		}
		return false
	}
	// dependency order: each process to run exactly once, dependencies first
	for i := 0; i < loads; i++ {
		order, err := prj.GetDependenciesOrderNames()
		if err != nil {
			// a dependency removed by the namespace admitter: not judged
			if len(sp.Namespaces) > 0 {
				break
			}
			r.Add("C07", "order-error", "GetDependenciesOrderNames failed on a valid project: %v", err)
			break
		}
		pos := map[string]int{}
		for k, n := range order {
			if _, dup := pos[n]; dup {
				r.Add("C07", "order-duplicate", "%s is listed twice in the dependency order %v", n, order)
			}
			pos[n] = k
		}
		for _, n := range sp.Nodes {
			if n.Disabled || n.Foreground || !inNs(byName[n.Name]) {
				for _, rn := range replicaNames(byName[n.Name]) {
					if _, ok := pos[rn]; ok {
						r.Add("C07", "order-lists-deferred", "deferred process %s is listed in the dependency order", rn)
					}
				}
				continue
			}
			for _, rn := range replicaNames(byName[n.Name]) {
				p, ok := pos[rn]
				if !ok {
					r.Add("C07", "order-missing", "%s is missing from the dependency order %v", rn, order)
					continue
				}
				for _, d := range n.Deps {
					dn := byName[d]
					if dn.Disabled || dn.Foreground || !inNs(dn) {
						continue
					}
					for _, drn := range replicaNames(dn) {
						if dp, ok := pos[drn]; ok && dp > p {
							r.Add("C07", "order-dependency-after", "%s is listed before its dependency %s: %v", rn, drn, order)
						}
					}
				}
			}
		}
		r.Count("orders_checked", 1)
	}
	if !sp.Run {
		if len(r.Findings) > 0 {
			r.Witness = strings.Split(rpYAML(&sp, 0), "\n")
		}
		return r
	}
	// run it: instantly exiting simulated commands
	env, err := sim.NewEnvProject(w, "", prj, sim.EnvOpts{ToRun: sp.ToRun, NoDeps: sp.NoDeps})
	if err != nil {
		// selecting a name that the namespace admitter removed is an error by design
		if len(sp.Namespaces) > 0 {
			return r
		}
		r.Add("C07", "selection-error", "NewProjectRunner failed for requested %v: %v", sp.ToRun, err)
		return r
	}
	env.Start()
	out := env.WaitRun(5*time.Second, 30*time.Second)
	if out != sim.RunReturned {
		r.Inconclusive = "run did not return"
		r.Dirty = true
		return r
	}
	states, _ := env.States()
	launched := map[string]bool{}
	for _, e := range w.Events() {
		if e.Kind == sim.EvLaunch {
			launched[e.Proc] = true
		}
	}
	// expected set
	want := map[string]bool{}
	if len(sp.ToRun) == 0 {
		for i := range sp.Nodes {
			n := &sp.Nodes[i]
			if !n.Disabled && !n.Foreground && inNs(n) {
				for _, rn := range replicaNames(n) {
					want[rn] = true
				}
			}
		}
	} else {
		sel := map[string]bool{}
		if sp.NoDeps {
			for _, t := range sp.ToRun {
				sel[t] = true
			}
		} else {
			sel = rpClosure(&sp, sp.ToRun)
		}
		for name := range sel {
			n := byName[name]
			if n == nil || !inNs(n) {
				continue
			}
			if n.Foreground {
				continue
			}
			for _, rn := range replicaNames(n) {
				want[rn] = true
			}
		}
	}
	r.Count("runs", 1)
	var got, exp []string
	for k := range launched {
		got = append(got, k)
	}
	for k := range want {
		exp = append(exp, k)
	}
	sort.Strings(got)
	sort.Strings(exp)
	if strings.Join(got, ",") != strings.Join(exp, ",") {
		key := "launched-set"
		for k := range launched {
			if !want[k] {
				n := byName[baseName(k)]
				switch {
				case n != nil && n.Foreground:
					key = "launched-foreground"
				case n != nil && n.Disabled && len(sp.ToRun) == 0:
					key = "launched-disabled"
				case len(sp.ToRun) > 0:
					key = "launched-unselected"
				}
			}
		}
		for k := range want {
			if !launched[k] {
				key = "not-launched-selected"
			}
		}
		r.Add("C07", key, "launched %v, expected %v (requested %v, no-deps %v, namespaces %v)", got, exp, sp.ToRun, sp.NoDeps, sp.Namespaces)
	}
	if len(sp.ToRun) > 0 {
		for name, st := range states {
			if !want[name] && st.Status != types.ProcessStateDisabled {
				n := byName[baseName(name)]
				if n != nil && n.Foreground && st.Status == types.ProcessStateForeground {
					continue
				}
				r.Add("C07", "unselected-not-disabled", "%s was not selected but is listed as %s", name, st.Status)
			}
		}
	}
	if len(r.Findings) > 0 {
		r.Witness = append(strings.Split(rpYAML(&sp, 0), "\n"), sim.FormatEvents(w.Events())...)
	}
	if c.Idx%97 == 0 {
		r.Sample = map[string]any{"launched": got, "requested": sp.ToRun}
	}
	return r
}

func rpGraphFromBits(n int, bits uint64, dangling bool) rpSpec {
	sp := rpSpec{}
	for i := 0; i < n; i++ {
		sp.Nodes = append(sp.Nodes, rpNode{Name: fmt.Sprintf("n%d", i)})
	}
	k := 0
	for i := 0; i < n; i++ {
		for j := 0; j < n; j++ {
			if bits&(1<<uint(k)) != 0 {
				sp.Nodes[i].Deps = append(sp.Nodes[i].Deps, fmt.Sprintf("n%d", j))
			}
			k++
		}
	}
	if dangling {
		sp.Nodes[0].Deps = append(sp.Nodes[0].Deps, "zz")
	}
	return sp
}

func init() {
	fw.Register(&fw.Property{
		ID: "C07", Level: "exploration",
		Rule:        "all directed graphs with self-loops on 1-3 nodes (2+16+512, each also with a dangling dependency, loaded 3x for fresh map orders) completely; quick: 3000 sampled 4-node graphs, thorough: all 65536; random graphs to 9 nodes; acyclic graphs are additionally run with instantly-exiting simulated commands for every subset of requested processes (n<=4), with and without no-deps, disabled/foreground/namespace markings and replica counts on leaves; distinct = graph + selection",
		Assumptions: []string{"reference: Kahn cycle detection, set closure, order-validity predicate", "a requested disabled process counts as explicitly started"},
		Exhaustive:  func(tier string) bool { return false },
		Gen: func(seed int64, tier string) []fw.Case {
			var cs []fw.Case
			for n := 1; n <= 3; n++ {
				for bits := uint64(0); bits < 1<<uint(n*n); bits++ {
					for _, dang := range []bool{false, true} {
						sp := rpGraphFromBits(n, bits, dang)
						sp.Strict = bits%2 == 1
						cs = append(cs, fw.MkCase("C07", fmt.Sprintf("exhaustive-n%d", n), int64(bits), sp))
					}
					// the same graphs with every pattern of disabled processes
					// (non-strict: a dependency on a disabled process is only logged)
					for mask := 1; mask < 1<<uint(n); mask++ {
						for _, dang := range []bool{false, true} {
							if n == 3 && (bits+uint64(mask))%3 != 0 {
								continue // a third of the 3-node combinations
							}
							sp := rpGraphFromBits(n, bits, dang)
							for k := 0; k < n; k++ {
								if mask&(1<<uint(k)) != 0 {
									sp.Nodes[k].Disabled = true
								}
							}
							sp.Loads = 1
							cs = append(cs, fw.MkCase("C07", fmt.Sprintf("exhaustive-disabled-n%d", n), int64(bits)*16+int64(mask), sp))
						}
					}
				}
			}
			rng := fw.Rand(seed)
			if tier == "thorough" {
				for bits := uint64(0); bits < 1<<16; bits++ {
					sp := rpGraphFromBits(4, bits, false)
					sp.Loads = 1
					cs = append(cs, fw.MkCase("C07", "exhaustive-n4", int64(bits), sp))
				}
			} else {
				for i := 0; i < 3000; i++ {
					bits := rng.Uint64() & 0xffff
					if i%2 == 0 {
						bits &= rng.Uint64() // sparser: more acyclic ones
					}
					sp := rpGraphFromBits(4, bits, false)
					sp.Loads = 1
					cs = append(cs, fw.MkCase("C07", "sampled-n4", int64(bits), sp))
				}
			}
			// random larger graphs, mostly acyclic (edges j<i) with a few back edges
			for i := 0; i < tierN(tier, 3000, 30000); i++ {
				n := 5 + rng.Intn(5)
				sp := rpSpec{}
				for a := 0; a < n; a++ {
					nd := rpNode{Name: fmt.Sprintf("n%d", a)}
					for b := 0; b < a; b++ {
						if rng.Intn(4) == 0 {
							nd.Deps = append(nd.Deps, fmt.Sprintf("n%d", b))
						}
					}
					sp.Nodes = append(sp.Nodes, nd)
				}
				if rng.Intn(3) == 0 {
					a, b := rng.Intn(n), rng.Intn(n)
					sp.Nodes[a].Deps = append(sp.Nodes[a].Deps, fmt.Sprintf("n%d", b))
					sp.Nodes[a].Deps = dedupStrs(sp.Nodes[a].Deps)
				}
				cs = append(cs, fw.MkCase("C07", "random-large", fw.SubSeed(seed, i), sp))
			}
			// selections on acyclic graphs, run with simulated commands
			for i := 0; i < tierN(tier, 4000, 40000); i++ {
				n := 2 + rng.Intn(4)
				sp := rpSpec{Run: true, Loads: 1}
				hasDependents := map[string]bool{}
				for a := 0; a < n; a++ {
					nd := rpNode{Name: fmt.Sprintf("n%d", a)}
					for b := 0; b < a; b++ {
						if rng.Intn(3) == 0 {
							nd.Deps = append(nd.Deps, fmt.Sprintf("n%d", b))
							hasDependents[fmt.Sprintf("n%d", b)] = true
						}
					}
					sp.Nodes = append(sp.Nodes, nd)
				}
				for a := range sp.Nodes {
					nd := &sp.Nodes[a]
					leaf := !hasDependents[nd.Name]
					switch rng.Intn(8) {
					case 0:
						if leaf {
							nd.Disabled = true
						}
					case 1:
						if leaf {
							nd.Foreground = true
						}
					case 2:
						if leaf {
							nd.Replicas = 2 + rng.Intn(2)
						}
					case 3:
						if leaf && len(nd.Deps) == 0 {
							nd.Namespace = "other"
							if rng.Intn(2) == 0 {
								nd.Replicas = 2 + rng.Intn(2) // replicated process outside the selected namespaces
							}
						}
					}
				}
				mode := i % 4
				if mode >= 1 {
					// a subset of requested processes (by mask)
					mask := 1 + rng.Intn(1<<uint(n)-1)
					for a := 0; a < n; a++ {
						if mask&(1<<uint(a)) != 0 {
							sp.ToRun = append(sp.ToRun, fmt.Sprintf("n%d", a))
						}
					}
					sp.NoDeps = mode == 3
				}
				if rng.Intn(4) == 0 {
					sp.Namespaces = []string{"default"}
				}
				cs = append(cs, fw.MkCase("C07", "selection-run", fw.SubSeed(seed, 50000+i), sp))
			}
			return cs
		},
		Run:     runRunPlan,
		Workers: func(string) int { return 16 },
	})
}

func dedupStrs(s []string) []string {
	seen := map[string]bool{}
	var out []string
	for _, v := range s {
		if !seen[v] {
			seen[v] = true
			out = append(out, v)
		}
	}
	return out
}
