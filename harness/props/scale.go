package props

import (
	"encoding/json"
	"fmt"
	"math/rand"
	"os"
	"sort"
	"strings"
	"time"

	"github.com/f1bonacc1/process-compose/src/types"

	"pcverif/fw"
	"pcverif/sim"
)

// ------------------------------------------------------------------ C13

type scSpec struct {
	Initial   int            `json:"initial"`
	Requests  []int          `json:"requests"` // scale targets (may be <1)
	Unknown   []int          `json:"unknown"`  // indexes of requests issued against an unknown name
	CmdRest   string         `json:"cmd_rest"`
	Descr     string         `json:"descr"`
	Vars      map[string]any `json:"vars,omitempty"`
	GVars     map[string]any `json:"gvars,omitempty"`
	DepOnBy   bool           `json:"dep_on_by"`
	ProbeTpl  string         `json:"probe_tpl,omitempty"` // templated liveness exec probe command
	Short     bool           `json:"short,omitempty"`     // replicas exit at once (survivors are not running when scaled)
	LogLoc    bool           `json:"log_loc"`
	ViaClient bool           `json:"via_client"`
	// Restarting: the replicas exit with code 1 after a moment and are
	// restarted (always) after a back-off, so that a scale-down finds replicas
	// between two launches
	Restarting bool `json:"restarting,omitempty"`
	// Concurrent: after the sequence, two overlapping requests (the first one
	// a scale-down of slow-to-die replicas)
	Concurrent []int `json:"concurrent,omitempty"`
	// WorkDir: "" none | "static" a fixed directory | "tpl" one directory per replica number
	WorkDir string `json:"work_dir,omitempty"`
	// Early: the first request is issued right after Run() began, without
	// waiting for the initial replicas
	Early bool `json:"early,omitempty"`
	SigMs int  `json:"sig_ms,omitempty"`
}

func (sp *scSpec) yaml(worldID, replicas int, dir string) string {
	var b strings.Builder
	b.WriteString("version: \"0.5\"\n")
	if len(sp.GVars) > 0 {
		b.WriteString("vars:\n")
		for _, k := range sortedKeys(sp.GVars) {
			fmt.Fprintf(&b, "  %s: %s\n", k, yamlScalar(sp.GVars[k]))
		}
	}
	b.WriteString("processes:\n")
	fmt.Fprintf(&b, "  by:\n    command: %s\n", yq(sim.FormatCommand(sim.Script{W: worldID, RunMs: []int{-1}}, "")))
	run := []int{-1}
	if sp.Short {
		run = []int{1}
	}
	scr := sim.Script{W: worldID, RunMs: run, Out: []sim.Chunk{{Stream: "o", N: 3}}}
	if sp.SigMs > 0 {
		scr.Sig = &sim.SigSpec{Ms: sp.SigMs}
	}
	if sp.Restarting {
		scr.RunMs = []int{2}
		scr.Exits = []int{1}
	}
	fmt.Fprintf(&b, "  sc:\n    command: %s\n", yq(sim.FormatCommand(scr, sp.CmdRest)))
	if sp.Restarting {
		b.WriteString("    availability:\n      restart: always\n      backoff_seconds: 3\n")
	}
	if sp.ProbeTpl != "" {
		fmt.Fprintf(&b, "    liveness_probe:\n      exec:\n        command: %s\n      period_seconds: 60\n      initial_delay_seconds: 50\n", yq(sp.ProbeTpl))
	}
	if replicas != 1 {
		fmt.Fprintf(&b, "    replicas: %d\n", replicas)
	}
	if sp.Descr != "" {
		fmt.Fprintf(&b, "    description: %s\n", yq(sp.Descr))
	}
	if sp.LogLoc {
		fmt.Fprintf(&b, "    log_location: %s\n", yq(dir+"/sc-{{.PC_REPLICA_NUM}}.log"))
	}
	switch sp.WorkDir {
	case "static":
		fmt.Fprintf(&b, "    working_dir: %s\n", yq(dir))
	case "tpl":
		fmt.Fprintf(&b, "    working_dir: %s\n", yq(dir+"/wd{{.PC_REPLICA_NUM}}"))
	}
	if len(sp.Vars) > 0 {
		b.WriteString("    vars:\n")
		for _, k := range sortedKeys(sp.Vars) {
			fmt.Fprintf(&b, "      %s: %s\n", k, yamlScalar(sp.Vars[k]))
		}
	}
	if sp.DepOnBy {
		b.WriteString("    depends_on:\n      by:\n        condition: process_started\n")
	}
	return b.String()
}

func genScSpec(rng *rand.Rand, i int) scSpec {
	sp := scSpec{}
	targets := []int{1, 2, 3, 9, 10, 11}
	if i%7 == 0 {
		targets = append(targets, 99, 100, 101)
	}
	sp.Initial = []int{1, 1, 2, 3, 9, 10}[rng.Intn(6)]
	n := 1 + rng.Intn(6)
	cur := sp.Initial
	for k := 0; k < n; k++ {
		t := targets[rng.Intn(len(targets))]
		switch rng.Intn(8) {
		case 0:
			t = cur // no-op
		case 1:
			t = []int{0, -1, -5}[rng.Intn(3)]
		}
		sp.Requests = append(sp.Requests, t)
		if rng.Intn(10) == 0 {
			sp.Unknown = append(sp.Unknown, k)
		} else if t >= 1 {
			cur = t
		}
	}
	tpls := []string{"", "r={{.PC_REPLICA_NUM}}", "v={{.LV}} r={{.PC_REPLICA_NUM}}", "g={{.GV}}-{{.PC_REPLICA_NUM}}", "n={{.GN}}", "ln={{.LN}}",
		// integer variables used as numbers (comparison, %d): their type must be
		// the same in a replica added by scaling as after a load (C13-r4-2)
		"c={{if lt .PC_REPLICA_NUM 2}}lo{{else}}hi{{end}}", `p={{printf "%03d" .PC_REPLICA_NUM}}`, "e={{if eq .PC_REPLICA_NUM 0}}first{{end}}",
		"b={{if gt .LN 5}}big{{else}}small{{end}}", `d={{printf "%05d" .LN}}`}
	sp.CmdRest = tpls[rng.Intn(len(tpls))]
	sp.Descr = tpls[rng.Intn(len(tpls))]
	numericLN := strings.Contains(sp.CmdRest+sp.Descr, "gt .LN") // needs a defined integer LN to load at all
	if rng.Intn(2) == 0 || numericLN {
		sp.Vars = map[string]any{"LV": fmt.Sprintf("l%d", rng.Intn(9)), "LN": []int{3, 4096, 999999}[rng.Intn(3)]}
		if i%9 == 4 {
			sp.Vars["LN"] = 1000000 + rng.Intn(1000000) // numeric variable >= 1e6 (D19)
		}
	}
	if rng.Intn(2) == 0 {
		sp.GVars = map[string]any{"GV": "gg", "GN": []int{7, 123456, 999999}[rng.Intn(3)]}
		if i%9 == 4 {
			sp.GVars["GN"] = 1000000 + rng.Intn(1000000) // D19 territory
		}
	}
	sp.DepOnBy = rng.Intn(3) == 0
	if rng.Intn(2) == 0 {
		sp.ProbeTpl = []string{"test -n sc-{{.PC_REPLICA_NUM}}", "true", "test {{.PC_REPLICA_NUM}} -ge 0"}[rng.Intn(3)]
	}
	sp.Short = i%5 == 2
	sp.LogLoc = rng.Intn(4) == 0
	if i%10 == 3 {
		sp.Restarting = true
	}
	sp.WorkDir = []string{"", "", "static", "tpl"}[rng.Intn(4)]
	if i%10 == 1 {
		sp.Early = true
	}
	if i%10 == 8 && cur >= 2 {
		// overlapping pair: a scale-down of slow-to-die replicas, then another request
		sp.SigMs = 40 + rng.Intn(50)
		sp.Concurrent = []int{1 + rng.Intn(cur-1), targets[rng.Intn(6)]}
	}
	return sp
}

func scNames(n int) []string {
	var out []string
	for k := 0; k < n; k++ {
		out = append(out, refReplicaName("sc", n, k))
	}
	return out
}

// projection of a process configuration onto what a fresh load defines per replica
func cfgView(pc *types.ProcessConfig) map[string]any {
	return map[string]any{
		"name": pc.Name, "replica_name": pc.ReplicaName, "replica_num": pc.ReplicaNum, "replicas": pc.Replicas,
		"command": pc.Command, "description": pc.Description, "working_dir": pc.WorkingDir, "log_location": pc.LogLocation,
		"executable": pc.Executable, "args": pc.Args, "environment": []string(pc.Environment), "namespace": pc.Namespace,
		"depends_on": fmt.Sprint(len(pc.DependsOn)), "disabled": pc.Disabled,
		"liveness_probe": pc.LivenessProbe, "readiness_probe": pc.ReadinessProbe, "vars": jsonNorm(pc.Vars),
	}
}

// jsonNorm passes a value through JSON so that 1 and 1.0 compare equal
func jsonNorm(v any) any {
	b, err := json.Marshal(v)
	if err != nil {
		return "ERR"
	}
	var x any
	_ = json.Unmarshal(b, &x)
	return x
}

func runScale(c fw.Case) fw.Result {
	var sp scSpec
	c.Params(&sp)
	r := fw.Result{NonTrivial: true}
	w := sim.NewWorld(c.Seed)
	w.KeepEnv = true
	w.NoOutEvents = true
	w.BackoffUnit = 5 * time.Millisecond
	sim.SetCurrent(w)
	defer sim.Forget(w)
	dir, err := os.MkdirTemp(sim.Scratch, "sc-")
	if err != nil {
		r.Inconclusive = err.Error()
		return r
	}
	defer os.RemoveAll(dir)
	if sp.WorkDir == "tpl" {
		for k := 0; k <= 101; k++ {
			_ = os.Mkdir(fmt.Sprintf("%s/wd%d", dir, k), 0o755)
		}
	}
	env, err := sim.NewEnv(w, sp.yaml(w.ID, sp.Initial, dir), sim.EnvOpts{})
	if err != nil {
		r.Inconclusive = err.Error()
		w.Close()
		return r
	}
	defer env.Cleanup()
	env.Start()
	fail := func(key, format string, a ...any) {
		r.Add("C13", key, format, a...)
	}
	expectLaunches := sp.Initial + 1
	waitAlive := func(n int) bool {
		// n replicas of sc + the bystander alive, nothing else
		return w.WaitFor(5*time.Second, func(v *sim.WorldView) bool {
			alive := 0
			for _, e := range []string{} {
				_ = e
			}
			alive = v.AliveTotal()
			if sp.Short {
				// the replicas exit at once: only the bystander stays alive, and
				// every replica launched so far has exited
				l := v.Count(sim.EvLaunch, "")
				return alive == 1 && l >= expectLaunches && v.Count(sim.EvExit, "") >= l-1
			}
			return alive == n+1
		})
	}
	// restarting mode: the replicas come and go; pace on launches per name
	waitLaunched := func(names []string, base map[string]int) bool {
		return w.WaitFor(5*time.Second, func(v *sim.WorldView) bool {
			for _, n := range names {
				if v.Launches(n) <= base[n] {
					return false
				}
			}
			return true
		})
	}
	if sp.Restarting {
		waitAlive = func(n int) bool { return true }
		if !waitLaunched(scNames(sp.Initial), map[string]int{}) {
			r.Inconclusive = "initial replicas did not come up"
			r.Dirty = true
			return r
		}
	}
	if sp.Early && !sp.Restarting && !sp.Short {
		// the first request races Run()'s start-up loop
	} else if !waitAlive(sp.Initial) {
		r.Inconclusive = "initial replicas did not come up"
		r.Dirty = true
		return r
	}
	var api *apiServer
	if sp.ViaClient {
		api = startAPI(env)
		defer api.close()
	}
	cur := sp.Initial
	unknown := map[int]bool{}
	for _, k := range sp.Unknown {
		unknown[k] = true
	}
	refCache := map[int]*types.Project{}
	for step, target := range sp.Requests {
		before := w.Events()
		nBefore := len(before)
		name := scNames(cur)[rand.New(rand.NewSource(c.Seed+int64(step))).Intn(cur)]
		if unknown[step] {
			name = "nosuch"
		}
		base := map[string]int{}
		for _, n := range append(append(scNames(1), scNames(9)...), append(scNames(99), scNames(101)...)...) {
			base[n] = w.Launches(n)
		}
		var callErr error
		callErr = env.Call("scale", name, target, func() error {
			if api != nil {
				return api.client.ScaleProcess(name, target)
			}
			return env.Runner.ScaleProcess(name, target)
		})
		expectErr := unknown[step] || target < 1
		if expectErr != (callErr != nil) {
			fail("request-outcome", "step %d: ScaleProcess(%s,%d) returned %v, expected error=%v", step, name, target, callErr, expectErr)
		}
		want := cur
		if !expectErr {
			want = target
		}
		if want > cur {
			expectLaunches += want - cur
		}
		retIdx := len(w.Events())
		if sp.Restarting {
			var addedNames []string
			have := map[string]bool{}
			for _, n := range scNames(cur) {
				have[n] = true
			}
			for _, n := range scNames(want) {
				if !have[n] {
					addedNames = append(addedNames, n)
				}
			}
			if !waitLaunched(addedNames, base) {
				fail("added-replica-not-launched", "step %d (scale %d -> %d): not every added replica of %v was launched", step, cur, target, addedNames)
				break
			}
			// several back-off periods: a removed replica must not come back
			time.Sleep(60 * time.Millisecond)
			wanted := map[string]bool{}
			for _, n := range scNames(want) {
				wanted[n] = true
			}
			for _, e := range w.Events()[retIdx:] {
				if e.Kind == sim.EvLaunch && e.Proc != "by" && !wanted[e.Proc] {
					fail("removed-replica-relaunched", "step %d (scale %d -> %d): %s is not one of the %d replicas any more but was launched again (seq %d) after the request had returned", step, cur, target, e.Proc, want, e.Seq)
					break
				}
			}
			r.Count("restarting_scale_steps", 1)
		}
		if !waitAlive(want) {
			fail("replica-commands", "step %d: after scaling %s from %d to %d the number of live commands is %d, expected %d (+1 bystander)", step, name, cur, target, w.AliveCount()-1, want)
			break
		}
		// settle: launches of added replicas recorded; now inspect
		after := w.Events()
		delta := after[nBefore:]
		// listing
		states, err := env.States()
		if err != nil {
			fail("listing-error", "step %d: GetProcessesState failed: %v", step, err)
			break
		}
		var listed []string
		for n := range states {
			if n != "by" {
				listed = append(listed, n)
			}
		}
		sort.Strings(listed)
		wantNames := scNames(want)
		sort.Strings(wantNames)
		if strings.Join(listed, ",") != strings.Join(wantNames, ",") {
			fail("replica-names", "step %d: after scale %d -> %d the listed replicas are %v, expected %v", step, cur, target, listed, wantNames)
			break
		}
		for n, st := range states {
			if st.Name != n {
				fail("state-name", "step %d: state listed under %q carries name %q", step, n, st.Name)
			}
		}
		// configuration = what a fresh load with replicas: n produces
		ref := refCache[want]
		if ref == nil {
			f, _ := sim.WriteTemp(dir, fmt.Sprintf("ref-%d.yaml", want), sp.yaml(w.ID, want, dir))
			ref, err = loadOnce([]string{f})
			if err != nil {
				r.Inconclusive = "reference load failed: " + err.Error()
				return r
			}
			refCache[want] = ref
		}
		for k, n := range scNames(want) {
			info, err := env.Runner.GetProcessInfo(n)
			if err != nil {
				fail("info-error", "step %d: GetProcessInfo(%s): %v", step, n, err)
				continue
			}
			rp := ref.Processes[n]
			gv, rv := canon(cfgView(info)), canon(cfgView(&rp))
			r.Count("replica_configs_checked", 1)
			if gv != rv {
				key := "replica-config"
				if strings.Contains(gv, "e+0") {
					key = "replica-config-float-rendering"
				}
				fail(key, "step %d (scale %d -> %d): configuration of %s differs from a fresh load with replicas: %d\n  runner: %s\n  fresh:  %s", step, cur, target, n, want, gv, rv)
			}
			if info.ReplicaNum != k {
				fail("replica-num", "step %d: %s has replica number %d, expected %d", step, n, info.ReplicaNum, k)
			}
			if _, err := env.Runner.GetProcessLog(n, 10, 0); err != nil {
				fail("replica-log", "step %d: GetProcessLog(%s): %v", step, n, err)
			}
			if st, ok := states[n]; !ok || st.Name != n {
				fail("replica-state", "step %d: no state listed for replica %s", step, n)
			} else if !sp.Short && !sp.Restarting {
				// its own state: the command of this replica is running and has
				// never exited or been restarted
				r.Count("replica_states_checked", 1)
				if st.Status != types.ProcessStateRunning || st.ExitCode != 0 || st.Restarts != 0 || !st.IsRunning {
					fail("replica-state-not-own", "step %d (scale %d -> %d): replica %s, whose only command is running, is reported as status=%s exit_code=%d restarts=%d is_running=%v", step, cur, target, n, st.Status, st.ExitCode, st.Restarts, st.IsRunning)
				}
			}
		}
		// events of this step
		launches, signals, byEvents := 0, 0, 0
		for _, e := range delta {
			switch {
			case e.Proc == "by" && (e.Kind == sim.EvLaunch || e.Kind == sim.EvSignal || e.Kind == sim.EvInstance || e.Kind == sim.EvExit):
				byEvents++
			case e.Kind == sim.EvLaunch:
				launches++
				eff := effectiveEnv(e.Env)
				k := -1
				if i := strings.LastIndexByte(e.Proc, '-'); i >= 0 {
					fmt.Sscanf(e.Proc[i+1:], "%d", &k)
				} else {
					k = 0
				}
				if eff["PC_REPLICA_NUM"] != fmt.Sprint(k) {
					fail("launch-replica-num", "step %d: %s launched with PC_REPLICA_NUM=%q", step, e.Proc, eff["PC_REPLICA_NUM"])
				}
				if eff["PC_PROC_NAME"] != "sc" {
					fail("launch-proc-name", "step %d: %s launched with PC_PROC_NAME=%q", step, e.Proc, eff["PC_PROC_NAME"])
				}
				if rp, ok := ref.Processes[e.Proc]; ok && len(e.Argv) > 0 && e.Argv[len(e.Argv)-1] != rp.Command {
					fail("launch-command", "step %d: %s launched with %q, a fresh load renders %q", step, e.Proc, e.Argv[len(e.Argv)-1], rp.Command)
				}
				if rp, ok := ref.Processes[e.Proc]; ok && e.Dir != rp.WorkingDir {
					fail("launch-dir", "step %d: %s launched in %q, a fresh load renders working_dir %q", step, e.Proc, e.Dir, rp.WorkingDir)
				}
			case e.Kind == sim.EvSignal:
				signals++
			}
		}
		added, removed := 0, 0
		if want > cur {
			added = want - cur
		} else {
			removed = cur - want
		}
		if sp.Restarting {
			cur = want
			if len(r.Findings) > 0 {
				break
			}
			continue
		}
		racy := sp.Early && step == 0 && !sp.Short && !sp.Restarting
		if racy {
			// the request raced the start-up loop: who launched what is not
			// attributable; the resulting set, configurations and states are
			launches, signals = added, removed
		}
		// names that no longer exist must not be answered by anybody
		wantSet := map[string]bool{}
		for _, n := range scNames(want) {
			wantSet[n] = true
		}
		for k, old := range scNames(cur) {
			// only survivors that were renamed (name width changed): a removed
			// replica may still be unregistering itself
			if wantSet[old] || k >= want || sp.Short || sp.Restarting {
				continue
			}
			nb := len(w.Events())
			err := env.Runner.StopProcess(old)
			sig := 0
			for _, e := range w.Events()[nb:] {
				if e.Kind == sim.EvSignal {
					sig++
				}
			}
			r.Count("stale_names_checked", 1)
			if err == nil || sig > 0 {
				fail("stale-name-answered", "step %d (scale %d -> %d): %s is not a replica any more, yet StopProcess(%s) returned %v and %d stop signals were sent", step, cur, target, old, old, err, sig)
			}
			if _, err := env.Runner.GetProcessState(old); err == nil {
				fail("stale-name-answered", "step %d (scale %d -> %d): GetProcessState(%s) still answers although %s is not a replica any more", step, cur, target, old, old)
			}
			break // one stale name per step is enough
		}
		if launches != added {
			fail("survivors-disturbed-or-not-launched", "step %d (scale %d -> %d): %d launches observed, expected %d (survivors must not be restarted, added replicas must be launched)", step, cur, target, launches, added)
		}
		if !sp.Short && (signals < removed || (removed == 0 && signals > 0)) {
			fail("signals", "step %d (scale %d -> %d): %d stop signals observed, expected %d removed replicas to be signalled and nobody else", step, cur, target, signals, removed)
		}
		if byEvents > 0 && !racy {
			fail("bystander-disturbed", "step %d: the unrelated process 'by' was touched by the scale request", step)
		}
		cur = want
		if len(r.Findings) > 0 {
			break
		}
	}
	if len(sp.Concurrent) == 2 && len(r.Findings) == 0 && !sp.Short && !sp.Restarting && cur >= 2 {
		a, b := sp.Concurrent[0], sp.Concurrent[1]
		if a >= cur {
			a = cur - 1
		}
		nameA := scNames(cur)[0]
		errs := make(chan error, 2)
		go func() {
			errs <- env.Call("scale", nameA, a, func() error { return env.Runner.ScaleProcess(nameA, a) })
		}()
		// the second request arrives while the removed replicas of the first are still dying
		w.WaitFor(2*time.Second, func(v *sim.WorldView) bool {
			n := 0
			for _, e := range v.Events() {
				if e.Kind == sim.EvSignal && e.Proc != "by" {
					n++
				}
			}
			return n > 0
		})
		nameB := nameA
		go func() {
			errs <- env.Call("scale", nameB, b, func() error { return env.Runner.ScaleProcess(nameB, b) })
		}()
		e1, e2 := <-errs, <-errs
		_ = e1
		_ = e2
		// whichever order the two requests took effect in, the outcome is the
		// outcome of one of them (the second may fail if its name is gone)
		ok := false
		var listed []string
		if states, err := env.States(); err == nil {
			for nm := range states {
				if nm != "by" {
					listed = append(listed, nm)
				}
			}
			sort.Strings(listed)
			for _, n := range []int{b, a} {
				wn := scNames(n)
				sort.Strings(wn)
				if n < 1 || strings.Join(listed, ",") != strings.Join(wn, ",") {
					continue
				}
				ok = w.WaitFor(8*time.Second, func(v *sim.WorldView) bool { return v.AliveTotal() == n+1 })
				for _, nm := range wn {
					if info, err := env.Runner.GetProcessInfo(nm); err != nil || info.Replicas != n {
						ok = false
					}
				}
				break
			}
		}
		r.Count("overlapping_scale_pairs", 1)
		if !ok {
			fail("overlapping-requests-outcome", "two overlapping scale requests (%d -> %d, then -> %d while the removed replicas were dying) left the replicas %v with %d live commands: neither the outcome of the first nor of the second request", cur, a, b, listed, w.AliveCount()-1)
		}
	}
	_ = env.Call("shutdown", "", 0, func() error { return env.Runner.ShutDownProject() })
	if out := env.WaitRun(4*time.Second, 30*time.Second); out != sim.RunReturned {
		r.Count("run_not_returned_after_scaling", 1)
		r.Dirty = true
	}
	if len(r.Findings) > 0 {
		ev := sim.FormatEvents(w.Events())
		if len(ev) > 150 {
			ev = ev[len(ev)-150:]
		}
		r.Witness = append(append(strings.Split(sp.yaml(0, sp.Initial, dir), "\n"), fmt.Sprintf("requests %v unknown %v", sp.Requests, sp.Unknown)), ev...)
	}
	r.Sig = sim.Hash(fmt.Sprint(sp.Initial, sp.Requests, sp.Unknown, sp.CmdRest, sp.Descr))
	if c.Idx < 2 {
		r.Sample = sp
	}
	return r
}

func init() {
	fw.Register(&fw.Property{
		ID: "C13", Level: "exploration",
		Rule:        "sequences of 1-6 scale requests over {1,2,3,9,10,11,(99,100,101)} incl. no-ops, n<1 and unknown names on a long-running process with templated command/description/log_location, variables and a dependency, next to an unrelated process; after every request: listed replica set, per-replica configuration vs a fresh load with replicas: n (field projection, canonical JSON), launch environment/arguments of added replicas, launches = added, signals = removed, bystander untouched, request outcome; distinct = request sequence + templates",
		Assumptions: []string{"a fresh loader.Load of the same YAML with replicas: n is the reference", "quiescence = expected number of live simulated commands reached (bounded 5 s), used to pace the history only"},
		Gen: func(seed int64, tier string) []fw.Case {
			var cs []fw.Case
			for i := 0; i < tierN(tier, 5000, 60000); i++ {
				s := fw.SubSeed(seed, i)
				sp := genScSpec(fw.Rand(s), i)
				sp.ViaClient = false
				cs = append(cs, fw.MkCase("C13", "scale-sequence", s, sp))
			}
			return cs
		},
		Run:     runScale,
		Workers: func(string) int { return 16 },
	})
}
