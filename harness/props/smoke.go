package props

import (
	"pcverif/fw"
	"pcverif/sim"
)

func init() {
	fw.Register(&fw.Property{
		ID: "SMOKE", Level: "exploration", Rule: "smoke",
		Gen: func(seed int64, tier string) []fw.Case {
			var cs []fw.Case
			for i := 0; i < 8; i++ {
				spec := LifeSpec{BackoffUnitMs: 25, AutoSched: true, Procs: []PSpec{
					{Name: "a", Exits: []int{1, 0}, RunMs: []int{5}, Restart: "on_failure"},
					{Name: "b", RunMs: []int{-1}, Deps: []Dep{{"a", "process_completed_successfully"}}},
					{Name: "c", RunMs: []int{3}, Deps: []Dep{{"b", "process_started"}}, Out: []sim.Chunk{{Stream: "o", N: 3}}},
				}}
				cs = append(cs, fw.MkCase("SMOKE", "smoke", fw.SubSeed(seed, i), spec))
			}
			return cs
		},
		Run: func(c fw.Case) fw.Result {
			var spec LifeSpec
			c.Params(&spec)
			lr := RunLife(c.Seed, &spec, nil)
			r := fw.Result{NonTrivial: true}
			if lr.LoadErr != nil {
				r.Inconclusive = lr.LoadErr.Error()
				return r
			}
			r.Sig = sim.Signature(lr.Events, sim.EvLaunch, sim.EvExit, sim.EvState)
			r.Sample = sim.FormatEvents(lr.Events)
			return r
		},
	})
}
