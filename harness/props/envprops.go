package props

import (
	"fmt"
	"math/rand"
	"os"
	"path/filepath"
	"strings"
	"time"

	"github.com/f1bonacc1/process-compose/src/loader"

	"pcverif/fw"
	"pcverif/sim"
)

// ------------------------------------------------------------------ C17 (load)

type evLoadSpec struct {
	OsEnv     map[string]string `json:"os_env"`  // set in the harness process before loading
	DotEnv    map[string]string `json:"dot_env"` // written to a .env file
	Disable   bool              `json:"disable_env_expansion"`
	Fragments []string          `json:"fragments"` // text pieces of the command, raw as written in the file
	Descr     []string          `json:"descr"`     // text pieces of the description
	EnvVal    []string          `json:"env_val"`   // text pieces of one environment value
}

var evNames = []string{"PCV_A", "PCV_B", "PCV_C", "PCV_UNDEF", "PCV_D"}

func genEvLoad(rng *rand.Rand) evLoadSpec {
	sp := evLoadSpec{OsEnv: map[string]string{}, DotEnv: map[string]string{}}
	vals := []string{"x", "hello world", "a=b", "v:1", "h#x", "üni", "", "1 2  3", "p/q/r", "-n"}
	for _, n := range []string{"PCV_A", "PCV_B"} {
		if rng.Intn(4) != 0 {
			sp.OsEnv[n] = vals[rng.Intn(len(vals))]
		}
	}
	if rng.Intn(2) == 0 {
		sp.DotEnv["PCV_C"] = vals[rng.Intn(len(vals))]
		if rng.Intn(2) == 0 {
			sp.DotEnv["PCV_A"] = "from-dotenv" // the process environment wins over .env
		}
	}
	sp.Disable = rng.Intn(5) == 0
	piece := func() string {
		n := evNames[rng.Intn(len(evNames))]
		switch rng.Intn(9) {
		case 0:
			return "$" + n
		case 1:
			return "${" + n + "}"
		case 2:
			return "$$"
		case 3:
			return "$$" + n
		case 4:
			return "$$$" + n
		case 5:
			return "$${" + n + "}"
		case 6:
			return " lit" + fmt.Sprint(rng.Intn(9)) + " "
		case 7:
			return "$" + n + "_x" // a longer, undefined name
		default:
			return "-"
		}
	}
	mk := func() []string {
		var out []string
		for i := 0; i < 1+rng.Intn(6); i++ {
			out = append(out, piece())
		}
		return out
	}
	sp.Fragments, sp.Descr, sp.EnvVal = mk(), mk(), mk()
	return sp
}

// refExpand is the statement's expansion: $$ -> literal $, $VAR / ${VAR} ->
// value from the environment (undefined -> empty), nothing when disabled.
func refExpand(s string, env map[string]string, disabled bool) string {
	if disabled {
		return s
	}
	const sentinel = "\x00ESC\x00"
	t := strings.ReplaceAll(s, "$$", sentinel)
	t = os.Expand(t, func(k string) string { return env[k] })
	return strings.ReplaceAll(t, sentinel, "$")
}

func runEnvLoad(c fw.Case) fw.Result {
	var sp evLoadSpec
	c.Params(&sp)
	r := fw.Result{NonTrivial: true}
	dir, err := os.MkdirTemp(sim.Scratch, "ev-")
	if err != nil {
		r.Inconclusive = err.Error()
		return r
	}
	defer os.RemoveAll(dir)
	for _, n := range evNames {
		os.Unsetenv(n)
	}
	defer func() {
		for _, n := range evNames {
			os.Unsetenv(n)
		}
	}()
	for k, v := range sp.OsEnv {
		os.Setenv(k, v)
	}
	var de strings.Builder
	for k, v := range sp.DotEnv {
		fmt.Fprintf(&de, "%s=\"%s\"\n", k, v)
	}
	dotenv, _ := sim.WriteTemp(dir, "vars.env", de.String())
	eff := map[string]string{}
	for k, v := range sp.DotEnv {
		eff[k] = v
	}
	for k, v := range sp.OsEnv {
		eff[k] = v
	}
	cmdSrc := "sim {\"w\":0} " + strings.Join(sp.Fragments, "")
	descSrc := strings.Join(sp.Descr, "")
	envSrc := "EV=" + strings.Join(sp.EnvVal, "")
	var y strings.Builder
	y.WriteString("version: \"0.5\"\n")
	if sp.Disable {
		y.WriteString("disable_env_expansion: true\n")
	}
	fmt.Fprintf(&y, "processes:\n  e0:\n    command: %s\n    description: %s\n    environment:\n      - %s\n", yq(cmdSrc), yq(descSrc), yq(envSrc))
	// the working directory is expanded (once) like every other field: what is
	// left after the load-time pass - an escaped $$, anything at all when
	// expansion is disabled - is literal text (seeded change C17-r4-2)
	wdSrc := "/tmp/pcv-wd/" + descSrc
	fmt.Fprintf(&y, "    working_dir: %s\n", yq(wdSrc))
	file, _ := sim.WriteTemp(dir, "pc.yaml", y.String())
	opts := &loader.LoaderOptions{FileNames: []string{file}, EnvFileNames: []string{dotenv}, IsInternalLoader: true}
	opts.DisableDotenv(false)
	prj, err := loader.Load(opts)
	if err != nil {
		r.Inconclusive = "load: " + err.Error()
		r.Witness = strings.Split(y.String(), "\n")
		return r
	}
	p := prj.Processes["e0"]
	chk := func(field, got, src string) {
		want := refExpand(src, eff, sp.Disable)
		r.Count("expansions_checked", 1)
		if got != want {
			r.Add("C17", "load-expansion:"+field, "%s = %q, expected %q (source %q, environment %v, .env %v, disabled=%v)", field, got, want, src, sp.OsEnv, sp.DotEnv, sp.Disable)
		}
	}
	chk("command", p.Command, cmdSrc)
	chk("description", p.Description, descSrc)
	chk("working_dir", p.WorkingDir, wdSrc)
	if len(p.Environment) != 1 {
		r.Add("C17", "load-expansion:environment", "environment %q", p.Environment)
	} else {
		chk("environment", p.Environment[0], envSrc)
	}
	if len(r.Findings) > 0 {
		r.Witness = strings.Split(y.String(), "\n")
	}
	r.Sig = sim.Hash(y.String() + fmt.Sprint(sp.OsEnv, sp.DotEnv))
	if c.Idx < 2 {
		r.Sample = map[string]any{"yaml": strings.Split(y.String(), "\n"), "os_env": sp.OsEnv, "dot_env": sp.DotEnv, "loaded_command": p.Command}
	}
	return r
}

// ------------------------------------------------------------------ C17 (launch)

type evLaunchSpec struct {
	Inherited map[string]string `json:"inherited"`
	Global    []string          `json:"global"`
	Proc      []string          `json:"proc"`
	EnvCmd    bool              `json:"env_cmd"`
	Replicas  int               `json:"replicas"`
	Real      bool              `json:"real"` // real `env` child instead of the simulated command
	Dir       string            `json:"dir"`
	Others    int               `json:"others"`      // further processes launched at the same time, each with its own per-process values
	EnvCmdBad bool              `json:"env_cmd_bad"` // several env_cmds, one of them fails: the others still count
}

// names of the variables defined in the three layers; two pairs differ only
// in case - on Linux these are distinct variables (seeded change C17-r4-1)
var evLaunchKeys = []string{"PCV_K0", "PCV_K1", "PCV_K2", "PCV_K3", "pcv_k0", "Pcv_K1"}

func genEvLaunch(rng *rand.Rand, real bool) evLaunchSpec {
	sp := evLaunchSpec{Inherited: map[string]string{}, Real: real}
	vals := []string{"x", "a b", "a=b", "", "üni", "q:r", "12"}
	keys := evLaunchKeys
	for _, k := range keys {
		if rng.Intn(2) == 0 {
			sp.Inherited[k] = "inh-" + vals[rng.Intn(len(vals))]
		}
		if rng.Intn(2) == 0 {
			sp.Global = append(sp.Global, k+"=glob-"+vals[rng.Intn(len(vals))])
		}
		if rng.Intn(2) == 0 {
			sp.Proc = append(sp.Proc, k+"=proc-"+vals[rng.Intn(len(vals))])
		}
	}
	sp.EnvCmd = rng.Intn(4) == 0
	bad := rng.Intn(2) == 0
	if rng.Intn(3) == 0 {
		// a variable that only the inherited environment defines and whose
		// name happens to start with PC_
		sp.Inherited["PC_PCV_OUTER"] = "outer-" + vals[rng.Intn(len(vals))]
	}
	sp.Replicas = []int{1, 1, 2, 3}[rng.Intn(4)]
	if real {
		sp.Replicas = 1
	}
	sp.Dir = []string{"", "/tmp", "/var/tmp", "/"}[rng.Intn(4)]
	if !real && rng.Intn(3) == 0 {
		sp.Others = 2 + rng.Intn(10)
		sp.EnvCmd = rng.Intn(2) == 0
	}
	sp.EnvCmdBad = sp.EnvCmd && bad
	return sp
}

func effectiveEnv(env []string) map[string]string {
	m := map[string]string{}
	for _, e := range env {
		if i := strings.IndexByte(e, '='); i > 0 {
			m[e[:i]] = e[i+1:] // last occurrence wins, as exec does
		}
	}
	return m
}

func runEnvLaunch(c fw.Case) fw.Result {
	var sp evLaunchSpec
	c.Params(&sp)
	r := fw.Result{NonTrivial: true}
	keys := append(append([]string{}, evLaunchKeys...), "PCV_CMD", "PC_PCV_OUTER")
	for _, k := range keys {
		os.Unsetenv(k)
	}
	defer func() {
		for _, k := range keys {
			os.Unsetenv(k)
		}
	}()
	for k, v := range sp.Inherited {
		os.Setenv(k, v)
	}
	w := sim.NewWorld(c.Seed)
	w.KeepEnv = true
	sim.SetCurrent(w)
	defer sim.Forget(w)
	outFile := filepath.Join(sim.Scratch, fmt.Sprintf("envout-%d-%d.txt", os.Getpid(), w.ID))
	defer os.Remove(outFile)
	var y strings.Builder
	y.WriteString("version: \"0.5\"\n")
	if sp.EnvCmd {
		y.WriteString("env_cmds:\n  PCV_CMD: 'echo from-cmd'\n")
		if sp.EnvCmdBad {
			y.WriteString("  PCV_BAD: 'exit 3'\n")
			for k := 0; k < 6; k++ {
				fmt.Fprintf(&y, "  PCV_CMD%d: 'echo cmd-%d'\n", k, k)
			}
		}
	}
	if len(sp.Global) > 0 {
		y.WriteString("environment:\n")
		for _, e := range sp.Global {
			fmt.Fprintf(&y, "  - %s\n", yq(e))
		}
	}
	cmd := sim.FormatCommand(sim.Script{W: w.ID}, "")
	if sp.Real {
		cmd = "env > " + outFile + "; pwd >> " + outFile
	}
	fmt.Fprintf(&y, "processes:\n  ev:\n    command: %s\n", yq(cmd))
	if sp.Replicas > 1 {
		fmt.Fprintf(&y, "    replicas: %d\n", sp.Replicas)
	}
	if sp.Dir != "" {
		fmt.Fprintf(&y, "    working_dir: %s\n", yq(sp.Dir))
	}
	if len(sp.Proc) > 0 {
		y.WriteString("    environment:\n")
		for _, e := range sp.Proc {
			fmt.Fprintf(&y, "      - %s\n", yq(e))
		}
	}
	for k := 0; k < sp.Others; k++ {
		fmt.Fprintf(&y, "  ot%d:\n    command: %s\n    environment:\n      - 'PCV_K0=own-%d'\n      - 'PCV_K1=own-%d'\n      - 'PCV_OWN=ot%d'\n", k, yq(sim.FormatCommand(sim.Script{W: w.ID}, "")), k, k, k)
	}
	env, err := sim.NewEnv(w, y.String(), sim.EnvOpts{})
	if err != nil {
		r.Inconclusive = err.Error()
		w.Close()
		return r
	}
	defer env.Cleanup()
	env.Start()
	if env.WaitRun(6*time.Second, 40*time.Second) != sim.RunReturned {
		r.Inconclusive = "run did not return"
		r.Dirty = true
		return r
	}
	inh, glob, proc := sp.Inherited, effectiveEnv(sp.Global), effectiveEnv(sp.Proc)
	check := func(who string, name string, replica int, eff map[string]string, dir string) {
		r.Count("launch_envs_checked", 1)
		if eff["PC_PROC_NAME"] != name {
			r.Add("C17", "launch-env:PC_PROC_NAME", "%s: PC_PROC_NAME=%q, expected %q", who, eff["PC_PROC_NAME"], name)
		}
		if eff["PC_REPLICA_NUM"] != fmt.Sprint(replica) {
			r.Add("C17", "launch-env:PC_REPLICA_NUM", "%s: PC_REPLICA_NUM=%q, expected %d", who, eff["PC_REPLICA_NUM"], replica)
		}
		for _, k := range evLaunchKeys {
			want, defined, layer := "", false, ""
			if v, ok := inh[k]; ok {
				want, defined, layer = v, true, "inherited"
			}
			if v, ok := glob[k]; ok {
				want, defined, layer = v, true, "global"
			}
			if v, ok := proc[k]; ok {
				want, defined, layer = v, true, "per-process"
			}
			got, ok := eff[k]
			if defined != ok || got != want {
				r.Add("C17", "launch-env:precedence:"+layer, "%s: %s=%q (present %v), expected %q from the %s layer (inherited %v, global %v, per-process %v)", who, k, got, ok, want, layer, inh, sp.Global, sp.Proc)
			}
		}
		if sp.EnvCmd && eff["PCV_CMD"] != "from-cmd" {
			r.Add("C17", "launch-env:env_cmds", "%s: PCV_CMD=%q, expected the env_cmds output", who, eff["PCV_CMD"])
		}
		if sp.EnvCmdBad {
			for k := 0; k < 6; k++ {
				if n := fmt.Sprintf("PCV_CMD%d", k); eff[n] != fmt.Sprintf("cmd-%d", k) {
					r.Add("C17", "launch-env:env_cmds", "%s: %s=%q, expected the output of its env_cmd (another env_cmd of the project fails)", who, n, eff[n])
					break
				}
			}
		}
		if v, ok := inh["PC_PCV_OUTER"]; ok && eff["PC_PCV_OUTER"] != v {
			r.Add("C17", "launch-env:precedence:inherited", "%s: the inherited variable PC_PCV_OUTER=%q reached the command as %q", who, v, eff["PC_PCV_OUTER"])
		}
		if _, ok := eff["PATH"]; !ok {
			r.Add("C17", "launch-env:inherited-lost", "%s: the inherited PATH is missing", who)
		}
		if dir != sp.Dir {
			r.Add("C17", "launch-dir", "%s: working directory %q, configured %q", who, dir, sp.Dir)
		}
	}
	if sp.Real {
		b, err := os.ReadFile(outFile)
		if err != nil {
			r.Inconclusive = "real child wrote nothing: " + err.Error()
			return r
		}
		lines := strings.Split(strings.TrimRight(string(b), "\n"), "\n")
		pwd := lines[len(lines)-1]
		eff := effectiveEnv(lines[:len(lines)-1])
		dir := pwd
		if sp.Dir == "" {
			dir = "" // inherits the harness' cwd
		}
		check("real child", "ev", 0, eff, dir)
	} else {
		n := 0
		for _, e := range w.Events() {
			if e.Kind != sim.EvLaunch {
				continue
			}
			if strings.HasPrefix(e.Proc, "ot") {
				// the other processes: their own per-process values, nobody else's
				eff := effectiveEnv(e.Env)
				k := strings.TrimPrefix(e.Proc, "ot")
				r.Count("launch_envs_checked", 1)
				if eff["PCV_K0"] != "own-"+k || eff["PCV_K1"] != "own-"+k || eff["PCV_OWN"] != e.Proc || eff["PC_PROC_NAME"] != e.Proc {
					r.Add("C17", "launch-env:foreign-values", "%s was launched with PCV_K0=%q PCV_K1=%q PCV_OWN=%q PC_PROC_NAME=%q: per-process values of another process", e.Proc, eff["PCV_K0"], eff["PCV_K1"], eff["PCV_OWN"], eff["PC_PROC_NAME"])
				}
				if sp.EnvCmd && eff["PCV_CMD"] != "from-cmd" {
					r.Add("C17", "launch-env:env_cmds", "%s: PCV_CMD=%q, expected the env_cmds output", e.Proc, eff["PCV_CMD"])
				}
				continue
			}
			n++
			k := 0
			if i := strings.LastIndexByte(e.Proc, '-'); i >= 0 {
				fmt.Sscanf(e.Proc[i+1:], "%d", &k)
			}
			eff := effectiveEnv(e.Env)
			if _, has := eff["PCV_OWN"]; has {
				r.Add("C17", "launch-env:foreign-values", "%s was launched with PCV_OWN=%q, a per-process variable of another process", e.Proc, eff["PCV_OWN"])
			}
			check(e.Proc, "ev", k, eff, e.Dir)
		}
		if n != sp.Replicas {
			r.Add("C17", "launch-count", "%d launches observed for %d replicas", n, sp.Replicas)
		}
	}
	if len(r.Findings) > 0 {
		r.Witness = strings.Split(y.String(), "\n")
	}
	r.Sig = sim.Hash(y.String() + fmt.Sprint(sp.Inherited))
	if c.Idx%500 == 3 {
		r.Sample = map[string]any{"yaml": strings.Split(y.String(), "\n"), "inherited": sp.Inherited}
	}
	return r
}

func init() {
	fw.Register(&fw.Property{
		ID: "C17", Level: "exploration",
		Rule:        "load: configuration text assembled from random placements of $VAR, ${VAR}, $$, $$VAR, $$$VAR, $${VAR}, undefined and longer names in command / description / environment values, loaded under a controlled process environment plus a .env file, with and without disable_env_expansion, compared with a reference expansion; launch: random overlaps of inherited, global, env_cmds and per-process definitions of the same keys on 1-3 replicas, the environment and directory handed to the (simulated) command compared with the reference layering per-process > global > inherited and the injected PC_PROC_NAME / PC_REPLICA_NUM, plus a real `env; pwd` child as a cross-check; distinct = file content + environment",
		Assumptions: []string{"effective environment = last occurrence wins (exec semantics)", "values without single quotes / newlines (they are YAML-quoted in the file)"},
		Gen: func(seed int64, tier string) []fw.Case {
			var cs []fw.Case
			for i := 0; i < tierN(tier, 10000, 120000); i++ {
				s := fw.SubSeed(seed, i)
				cs = append(cs, fw.MkCase("C17", "load-expansion", s, genEvLoad(fw.Rand(s))))
			}
			for i := 0; i < tierN(tier, 6000, 80000); i++ {
				s := fw.SubSeed(seed, 100000+i)
				cs = append(cs, fw.MkCase("C17", "launch-env", s, genEvLaunch(fw.Rand(s), false)))
			}
			for i := 0; i < tierN(tier, 24, 200); i++ {
				s := fw.SubSeed(seed, 200000+i)
				cs = append(cs, fw.MkCase("C17", "launch-env-real", s, genEvLaunch(fw.Rand(s), true)))
			}
			return cs
		},
		Run: func(c fw.Case) fw.Result {
			if c.Kind == "load-expansion" {
				return runEnvLoad(c)
			}
			return runEnvLaunch(c)
		},
		Workers: func(string) int { return 16 },
	})
}
