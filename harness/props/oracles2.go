package props

import (
	"fmt"
	"strings"
	"time"

	"github.com/f1bonacc1/process-compose/src/types"

	"pcverif/fw"
	"pcverif/sim"
)

// ------------------------------------------------------------------ C02

// expectedLaunches is the reference restart decision table.
func expectedLaunches(p *PSpec) int {
	launches := 1
	restarts := 0
	for {
		code := 0
		if len(p.Exits) > 0 {
			if launches-1 < len(p.Exits) {
				code = p.Exits[launches-1]
			} else {
				code = p.Exits[len(p.Exits)-1]
			}
		}
		for _, a := range p.StartErr {
			if a == 0 || a == launches {
				return launches // start failure: Error, no relaunch
			}
		}
		again := false
		switch p.Restart {
		case types.RestartPolicyAlways:
			again = true
		case types.RestartPolicyOnFailure:
			again = code != 0
		}
		if again && p.MaxRestarts > 0 && restarts >= p.MaxRestarts {
			again = false
		}
		if !again {
			return launches
		}
		restarts++
		launches++
		if launches > 200 {
			return launches
		}
	}
}

func effBackoff(p *PSpec) int {
	if p.Backoff > 1 {
		return p.Backoff
	}
	return 1
}

// oracleRestart checks launch counts, back-off lower bound, no relaunch after
// a stop, and the reported restart count.
func oracleRestart(lr *LifeRun, ix *lifeIndex, r *fw.Result) {
	spec := lr.Spec
	unit := time.Duration(spec.BackoffUnitMs) * time.Millisecond
	if unit == 0 {
		unit = time.Second
	}
	shutdown := len(ix.shutdownEnter) > 0
	for i := range spec.Procs {
		p := &spec.Procs[i]
		pl := ix.procs[p.Name]
		if pl == nil || len(pl.Instances) != 1 {
			continue
		}
		stops := apiCallsFor(ix.ev, p.Name, "stop", "restart")
		// back-off lower bound between exit k and launch k+1 of the same instance
		for k := 1; k < len(pl.Launches); k++ {
			prev, next := pl.Launches[k-1], pl.Launches[k]
			if prev.ExitSeq < 0 || prev.Inst != next.Inst {
				continue
			}
			gap := time.Duration(ix.ev[next.Seq].T - ix.ev[prev.ExitSeq].T)
			want := time.Duration(effBackoff(p)) * unit
			r.Count("backoff_gaps_checked", 1)
			if gap < want {
				r.Add("C02", "backoff-too-short", "%s relaunched %.1f ms after its exit, back-off is %d x %v", p.Name, float64(gap)/1e6, effBackoff(p), unit)
			}
		}
		if len(pl.Launches) == 0 {
			continue
		}
		if len(stops) == 0 && !shutdown && lr.Outcome == sim.RunReturned {
			want := expectedLaunches(p)
			r.Count("restart_sequences_checked", 1)
			if len(pl.Launches) != want {
				r.Add("C02", fmt.Sprintf("launch-count:%s", p.Restart), "%s (restart=%q max_restarts=%d exits=%v) was launched %d times, reference says %d", p.Name, p.Restart, p.MaxRestarts, p.Exits, len(pl.Launches), want)
			}
			if fs, ok := lr.Final[p.Name]; ok {
				if fs.Restarts != len(pl.Launches)-1 {
					r.Add("C02", "restart-count", "%s reports %d restarts after %d launches", p.Name, fs.Restarts, len(pl.Launches))
				}
			}
		}
		// never relaunched once a project shutdown has been requested: after the
		// shutdown has flagged the running processes (shutdown.afterPrepare) an
		// instance that already ran a command must not launch another one
		prep := -1
		for k := range ix.ev {
			if ix.ev[k].Kind == sim.EvYield && ix.ev[k].Str == "shutdown.afterPrepare" {
				prep = ix.ev[k].Seq
				break
			}
		}
		if prep >= 0 {
			seen := map[int]bool{}
			for _, l := range pl.Launches {
				// decided after the flag: the back-off of this relaunch expired after it
				decided := -1
				for k := range ix.ev {
					e := &ix.ev[k]
					if e.Seq >= l.Seq {
						break
					}
					if e.Kind == sim.EvYield && e.Str == "run.afterBackoff" && e.Proc == p.Name {
						decided = e.Seq
					}
				}
				if seen[l.Inst] && l.Seq > prep && decided > prep {
					if is, ok := pl.InstSeq[l.Inst]; ok && is < prep {
						r.Add("C02", "relaunch-after-shutdown-request", "%s was relaunched (attempt %d, seq %d) after the project shutdown had been requested and had flagged the running processes (seq %d)", p.Name, l.Att, l.Seq, prep)
					}
				}
				seen[l.Inst] = true
			}
		}
		// never relaunched once a stop of that process returned / a shutdown returned
		for _, e := range ix.ev {
			if e.Kind != sim.EvApiRet || e.Code != 0 {
				continue
			}
			if !((e.Str == "stop" && e.Proc == p.Name) || e.Str == "shutdown") {
				continue
			}
			for _, l := range pl.Launches {
				// the instance that existed when the request was issued must not launch again
				is, ok := pl.InstSeq[l.Inst]
				if l.Seq > e.Seq && ok && is < e.Att {
					r.Count("post_stop_launches", 1)
					r.Add("C02", "relaunch-after-stop", "%s was launched (seq %d) after the %s request returned (seq %d)", p.Name, l.Seq, e.Str, e.Seq)
				}
			}
		}
	}
}

// ------------------------------------------------------------------ C08

// pspecNames lists the runtime names of a configured process.
func pspecNames(p *PSpec) []string {
	if p.Replicas <= 1 {
		return []string{p.Name}
	}
	var out []string
	for k := 0; k < p.Replicas; k++ {
		out = append(out, refReplicaName(p.Name, p.Replicas, k))
	}
	return out
}

func oracleManual(lr *LifeRun, ix *lifeIndex, r *fw.Result) {
	spec := lr.Spec
	known := map[string]bool{}
	for i := range spec.Procs {
		for _, n := range pspecNames(&spec.Procs[i]) {
			known[n] = true
		}
	}
	type call struct {
		op, proc string
		callSeq  int
		retSeq   int
		ok       bool
	}
	startupDone := 0
	for i := range spec.Procs {
		if !autoRun(spec, spec.Procs[i].Name) {
			continue
		}
		for _, n := range pspecNames(&spec.Procs[i]) {
			pl := ix.procs[n]
			if pl == nil || len(pl.Instances) == 0 {
				startupDone = len(ix.ev) + 1
				break
			}
			if pl.Instances[0] > startupDone {
				startupDone = pl.Instances[0]
			}
		}
	}
	// exact end of Run()'s start-up loop (hook Run.loopDone): until then an
	// instance may be the automatic one - Run() creates it when it reaches the
	// process and finds no live instance, which can be long after the first
	// (manually started) instance of that process ended when the loop was
	// waiting behind a restart's back-off (false alarm of seed 28, DESIGN 9)
	loopDone := len(ix.ev) + 1
	for i := range ix.ev {
		if ix.ev[i].Kind == sim.EvYield && ix.ev[i].Str == "Run.loopDone" {
			loopDone = i
			break
		}
	}
	if loopDone > startupDone {
		startupDone = loopDone
	}
	var calls []call
	for i := range ix.ev {
		e := &ix.ev[i]
		if e.Kind != sim.EvApiCall {
			continue
		}
		c := call{op: e.Str, proc: e.Proc, callSeq: e.Seq, retSeq: -1}
		for j := i + 1; j < len(ix.ev); j++ {
			if ix.ev[j].Kind == sim.EvApiRet && ix.ev[j].Att == e.Seq && ix.ev[j].Str == e.Str {
				c.retSeq = ix.ev[j].Seq
				c.ok = ix.ev[j].Code == 0
				break
			}
		}
		calls = append(calls, c)
	}
	for _, c := range calls {
		if c.retSeq < 0 {
			continue
		}
		if c.op != "start" && c.op != "stop" && c.op != "restart" {
			continue
		}
		r.Count("requests_checked", 1)
		if !known[c.proc] {
			if c.ok {
				r.Add("C08", "unknown-name-succeeded", "%s request for unknown process %q succeeded", c.op, c.proc)
			}
			// no event may mention it
			if hasEventBetween(ix.ev, c.callSeq, c.retSeq, func(e *sim.Event) bool {
				return e.Proc == c.proc && (e.Kind == sim.EvInstance || e.Kind == sim.EvLaunch || e.Kind == sim.EvSignal || e.Kind == sim.EvState)
			}) {
				r.Add("C08", "unknown-name-side-effect", "%s request for unknown process %q left events", c.op, c.proc)
			}
			continue
		}
		pl := ix.procs[c.proc]
		instBetween := 0
		if pl != nil {
			for _, s := range pl.Instances {
				if s > c.callSeq && s < c.retSeq {
					instBetween++
				}
			}
		}
		// concurrent requests for the same process make per-request attribution
		// ambiguous: attribute only when no other start/restart overlaps, and
		// not while Run() is still creating the automatic instances
		overlapping := c.callSeq < startupDone
		for _, o := range calls {
			if o.callSeq == c.callSeq || o.proc != c.proc || (o.op != "start" && o.op != "restart") {
				continue
			}
			if o.retSeq < 0 || (o.callSeq < c.retSeq && o.retSeq > c.callSeq) {
				overlapping = true
			}
		}
		switch c.op {
		case "start":
			aliveThroughout := ix.aliveAt(c.proc, c.callSeq) && ix.aliveAt(c.proc, c.retSeq) && !hasEventBetween(ix.ev, c.callSeq, c.retSeq, func(e *sim.Event) bool {
				return e.Proc == c.proc && e.Kind == sim.EvExit
			})
			if aliveThroughout && c.ok {
				r.Add("C08", "start-on-active-succeeded", "start of %s succeeded although a command of it was alive during the whole request (seq %d..%d)", c.proc, c.callSeq, c.retSeq)
			}
			if !overlapping {
				if c.ok && instBetween != 1 {
					r.Add("C08", "start-instance-count", "successful start of %s created %d instances", c.proc, instBetween)
				}
				if !c.ok && instBetween != 0 {
					r.Add("C08", "failed-start-side-effect", "failed start of %s created %d instances", c.proc, instBetween)
				}
			}
		case "restart":
			if !overlapping && c.ok && instBetween != 1 {
				r.Add("C08", "restart-instance-count", "successful restart of %s created %d instances", c.proc, instBetween)
			}
		case "stop":
			if !c.ok || pl == nil {
				continue
			}
			// the command alive at the call must end, and nothing of this process is
			// launched after the request returned until the next start/restart
			for _, l := range pl.Launches {
				if l.Failed {
					continue
				}
				if l.Seq < c.callSeq && (l.ExitSeq < 0 || l.ExitSeq > c.callSeq) {
					if l.ExitSeq < 0 && lr.Outcome == sim.RunReturned {
						r.Add("C08", "stop-no-termination", "%s (attempt %d) was alive when the successful stop was issued (seq %d) and never exited", c.proc, l.Att, c.callSeq)
					}
				}
				if is, ok := pl.InstSeq[l.Inst]; l.Seq > c.retSeq && ok && is < c.callSeq {
					r.Add("C08", "relaunch-after-stop", "%s (instance created at seq %d) was launched (seq %d) after a successful stop returned (seq %d)", c.proc, is, l.Seq, c.retSeq)
				}
			}
		}
	}
	// conservation: every instance launches at most once unless a restart policy applies
	for i := range spec.Procs {
		p := &spec.Procs[i]
		pl := ix.procs[p.Name]
		if pl == nil || (p.Restart != "" && p.Restart != "no" && p.Restart != "exit_on_failure") {
			continue
		}
		per := map[int]int{}
		for _, l := range pl.Launches {
			per[l.Inst]++
		}
		for inst, n := range per {
			if n > 1 {
				r.Add("C08", "instance-launched-twice", "instance %d of %s (no restart policy) launched %d commands", inst, p.Name, n)
			}
		}
		// a successful restart whose new instance never launched although nothing stopped it
		for _, c := range calls {
			if c.op != "restart" || c.proc != p.Name || !c.ok || c.retSeq < 0 {
				continue
			}
			laterStop := false
			for _, o := range calls {
				if (o.proc == p.Name || o.op == "shutdown") && (o.op == "stop" || o.op == "restart" || o.op == "shutdown") && o.callSeq > c.callSeq {
					laterStop = true
				}
			}
			if laterStop || len(ix.shutdownEnter) > 0 || len(p.Deps) > 0 || lr.Outcome != sim.RunReturned {
				continue
			}
			launched := false
			for _, l := range pl.Launches {
				if l.Seq > c.callSeq {
					launched = true
				}
			}
			if !launched {
				r.Add("C08", "restart-launched-nothing", "restart of %s succeeded (seq %d..%d) but no command was launched afterwards", p.Name, c.callSeq, c.retSeq)
			}
		}
	}
}

// ------------------------------------------------------------------ C09

var legalNext = map[string]map[string]bool{
	"fresh": {types.ProcessStatePending: true},
	types.ProcessStatePending: {types.ProcessStateRunning: true, types.ProcessStateLaunching: true, types.ProcessStateSkipped: true, types.ProcessStateCompleted: true,
		types.ProcessStateTerminating: true, types.ProcessStateError: true},
	types.ProcessStateRunning: {types.ProcessStateRestarting: true, types.ProcessStateTerminating: true, types.ProcessStateCompleted: true,
		types.ProcessStateError: true},
	types.ProcessStateLaunching: {types.ProcessStateLaunched: true, types.ProcessStateRestarting: true, types.ProcessStateTerminating: true,
		types.ProcessStateCompleted: true, types.ProcessStateError: true},
	types.ProcessStateLaunched: {types.ProcessStateRestarting: true, types.ProcessStateTerminating: true, types.ProcessStateCompleted: true},
	types.ProcessStateRestarting: {types.ProcessStateRunning: true, types.ProcessStateLaunching: true, types.ProcessStateCompleted: true,
		types.ProcessStateError: true},
	// Terminating -> Error: a stop request landed between a failed start and
	// the Error write of the same launch attempt
	types.ProcessStateTerminating: {types.ProcessStateCompleted: true, types.ProcessStateRestarting: true, types.ProcessStateTerminating: true,
		types.ProcessStateSkipped: true, types.ProcessStateError: true,
		// a daemon whose launcher returns while it is being stopped (Completed follows at once)
		types.ProcessStateLaunched: true},
}

// oracleState checks every status write of every process.
func oracleState(lr *LifeRun, ix *lifeIndex, r *fw.Result) {
	spec := lr.Spec
	for _, name := range ix.names {
		pl := ix.procs[name]
		ps := spec.proc(baseName(name))
		if len(pl.States) == 0 {
			continue
		}
		// merge instance and state events in seq order
		type item struct {
			seq  int
			inst bool
			ev   *sim.Event
		}
		var items []item
		for _, s := range pl.Instances {
			items = append(items, item{seq: s, inst: true})
		}
		for k := range pl.States {
			items = append(items, item{seq: pl.States[k].Seq, ev: &pl.States[k]})
		}
		for a := 1; a < len(items); a++ {
			for b := a; b > 0 && items[b].seq < items[b-1].seq; b-- {
				items[b], items[b-1] = items[b-1], items[b]
			}
		}
		// two instances active at once share one state object: transitions of
		// such histories are attributed per instance id
		prevByInst := map[int]string{}
		liveInst := map[int]bool{}
		for _, it := range items {
			if it.inst {
				continue
			}
			e := it.ev
			prev, seen := prevByInst[e.Inst]
			if !seen {
				prev = "fresh"
			}
			r.Count("transitions_checked", 1)
			next := e.Str
			if isTerminal(prev) {
				r.Add("C09", "transition:"+prev+"->"+next, "%s: status %s written after terminal status %s of the same instance (seq %d)", name, next, prev, e.Seq)
			} else if !legalNext[prev][next] {
				r.Add("C09", "transition:"+prev+"->"+next, "%s: illegal status transition %s -> %s (seq %d)", name, prev, next, e.Seq)
			}
			prevByInst[e.Inst] = next
			liveInst[e.Inst] = !isTerminal(next)
			// truthfulness at the write
			alive := ix.aliveAt(name, e.Seq)
			switch {
			case isTerminal(next) && alive:
				for _, l := range pl.Launches {
					if !l.Failed && l.Seq < e.Seq && (l.ExitSeq < 0 || l.ExitSeq > e.Seq) {
						key := "terminal-while-alive"
						if l.Inst != e.Inst {
							key = "terminal-while-successor-alive"
						}
						r.Add("C09", key, "%s reported %s (seq %d, written by instance %d) while a command of it (attempt %d, instance %d) was still alive", name, next, e.Seq, e.Inst, l.Att, l.Inst)
					}
				}
			}
			if isTerminal(next) {
				// exit code at the terminal transition
				var last *launchRec
				for _, l := range pl.Launches {
					if l.Inst == e.Inst && l.Seq < e.Seq {
						last = l
					}
				}
				switch {
				case next == types.ProcessStateSkipped:
					if e.Code == 0 {
						r.Add("C09", "skipped-exit-zero", "%s reported Skipped with exit code 0", name)
					}
				case next == types.ProcessStateError:
					if e.Code == 0 {
						r.Add("C09", "error-exit-zero", "%s reported Error with exit code 0", name)
					}
				case last != nil && !last.Failed && last.ExitSeq >= 0 && last.ExitSeq < e.Seq:
					if ps != nil && ps.Daemon {
						break
					}
					if e.Code != last.ExitCode {
						r.Add("C09", "exit-code-mismatch", "%s reported exit code %d at %s, its last command (attempt %d) exited with %d", name, e.Code, next, last.Att, last.ExitCode)
					}
				}
			}
			if next == types.ProcessStateRunning || next == types.ProcessStateLaunching {
				// must be followed by a launch of this instance before any other status write of it (checked via launches)
			}
		}
		// final state
		if lr.Outcome == sim.RunHang {
			// nothing is alive, nothing is pending, nothing moves any more: a
			// process left between two launches or in the middle of a stop has
			// nothing left to wait for
			if fs, ok := lr.Final[name]; ok && (fs.Status == types.ProcessStateRestarting || fs.Status == types.ProcessStateTerminating || fs.Status == types.ProcessStateLaunching) && !ix.aliveAt(name, len(ix.ev)+1) {
				r.Add("C09", "transient-at-end:"+fs.Status, "%s remains in transient status %s although no command is alive and nothing moves any more (Run() hangs)", name, fs.Status)
			}
			// Pending: the instance exists, its goroutine has not ended, and every
			// process it waits for is reported terminal with no command alive -
			// whatever the condition, the wait is decided then (launch or skip)
			if fs, ok := lr.Final[name]; ok && fs.Status == types.ProcessStatePending && len(pl.Instances) > 0 {
				lastInst := pl.Instances[len(pl.Instances)-1]
				ended := hasEventBetween(ix.ev, lastInst, len(ix.ev)+1, func(e *sim.Event) bool {
					return e.Kind == sim.EvYield && e.Str == "runner.afterRun" && e.Proc == name
				})
				var me *PSpec
				for i := range lr.Spec.Procs {
					for _, n := range pspecNames(&lr.Spec.Procs[i]) {
						if n == name {
							me = &lr.Spec.Procs[i]
						}
					}
				}
				decided := me != nil && !ended
				var deps []string
				if me != nil {
					for _, d := range me.Deps {
						dp := lr.Spec.proc(d.On)
						if dp == nil {
							decided = false
							break
						}
						for _, dn := range pspecNames(dp) {
							ds, ok := lr.Final[dn]
							if !ok || !isTerminal(ds.Status) || ix.aliveAt(dn, len(ix.ev)+1) {
								decided = false
							}
							deps = append(deps, dn+"="+ds.Status)
						}
					}
				}
				if decided && len(me.Deps) > 0 {
					r.Add("C09", "transient-at-end:"+fs.Status, "%s remains Pending although every process it depends on has ended (%s), no command is alive and nothing moves any more (Run() hangs)", name, strings.Join(deps, ", "))
				}
			}
		}
		if lr.Outcome == sim.RunReturned && lr.Settled {
			fs, ok := lr.Final[name]
			if ok {
				if !isTerminal(fs.Status) && fs.Status != types.ProcessStateDisabled && fs.Status != types.ProcessStateForeground {
					// API-started instances may outlive Run()
					if !ix.aliveAt(name, len(ix.ev)+1) {
						pending := false
						for _, l := range pl.Launches {
							if l.ExitSeq < 0 && !l.Failed {
								pending = true
							}
						}
						lastInst := -1
						if len(pl.Instances) > 0 {
							lastInst = pl.Instances[len(pl.Instances)-1]
						}
						if !pending && lastInst < ix.runRet {
							r.Add("C09", "transient-at-end:"+fs.Status, "%s remains in transient status %s after Run() returned with no command alive", name, fs.Status)
						}
					}
				}
				// once ended, the reported exit code does not change any more
				if isTerminal(fs.Status) && len(pl.States) > 0 {
					if t := pl.States[len(pl.States)-1]; isTerminal(t.Str) && t.Str == fs.Status && t.Code != fs.ExitCode {
						r.Add("C09", "exit-code-changed-after-end", "%s ended as %s with exit code %d (seq %d) and is reported with exit code %d after Run() returned", name, t.Str, t.Code, t.Seq, fs.ExitCode)
					}
				}
				// the exit code that stays reported is the one of the last command
				if isTerminal(fs.Status) && fs.Status != types.ProcessStateSkipped && len(pl.Instances) == 1 && (ps == nil || !ps.Daemon) && len(pl.Launches) > 0 {
					if last := pl.Launches[len(pl.Launches)-1]; !last.Failed && last.ExitSeq >= 0 {
						r.Count("final_exit_codes_checked", 1)
						if fs.ExitCode != last.ExitCode {
							r.Add("C09", "final-exit-code-mismatch", "%s is reported with exit code %d after Run() returned, its last command (attempt %d) exited with %d", name, fs.ExitCode, last.Att, last.ExitCode)
						}
					}
				}
				if fs.IsRunning && !ix.aliveAt(name, len(ix.ev)+1) && (ps == nil || !ps.Daemon) {
					r.Add("C09", "is-running-false-positive", "%s is reported running (status %s) with no command alive", name, fs.Status)
				}
			}
		}
	}
}

// stateSig is the distinctness signature for C09: the multiset of observed
// transitions.
func stateSig(evs []sim.Event) string {
	return sim.Signature(evs, sim.EvState, sim.EvInstance)
}
