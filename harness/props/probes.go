package props

import (
	"fmt"
	"math/rand"
	"os"
	"strings"

	"github.com/f1bonacc1/process-compose/src/health"
	"github.com/f1bonacc1/process-compose/src/types"

	"pcverif/fw"
	"pcverif/sim"
)

// ------------------------------------------------------------------ C10

type pbSpec struct {
	Kind       string `json:"kind"`      // "" sequence | "initial-delay"
	Delay      int    `json:"delay"`     // initial_delay_seconds (initial-delay kind)
	Op         string `json:"op"`        // initial-delay kind: "stop" | "restart" during the delay
	Seq        []int  `json:"seq"`       // probe outcomes, 1 ok / 0 fail
	Threshold  int    `json:"threshold"` // failure_threshold
	Restart    string `json:"restart"`
	Daemon     bool   `json:"daemon"`                 // daemon + liveness probe instead of readiness
	Dependent  bool   `json:"dependent"`              // a process depending on it with process_healthy
	LauncherMs int    `json:"launcher_ms,omitempty"`  // daemon: the launcher command takes this long to return
	Exec       string `json:"exec,omitempty"`         // exec readiness probe variant: ok | exit3 | hang | killed | nocmd
	SelfExitMs int    `json:"self_exit_ms,omitempty"` // the first command exits by itself (code 3) after this long - after it became Ready; later ones run on
	Storm      bool   `json:"storm,omitempty"`        // every probe fails, threshold 1, back-off ~1 ms: hundreds of probe-triggered restarts
}

func genPbSpec(rng *rand.Rand, i int) pbSpec {
	sp := pbSpec{Threshold: 1 + rng.Intn(3), Restart: []string{"", "no", "always", "on_failure"}[rng.Intn(4)]}
	n := 2 + rng.Intn(6)
	for k := 0; k < n; k++ {
		v := 1
		if rng.Intn(5) < 2 {
			v = 0
		}
		sp.Seq = append(sp.Seq, v)
	}
	switch i % 6 {
	case 4: // two fatal runs in a row (the second must stop the relaunched command too)
		sp.Restart = []string{"always", "on_failure"}[rng.Intn(2)]
		sp.Seq = nil
		for k := 0; k < 2*sp.Threshold; k++ {
			sp.Seq = append(sp.Seq, 0)
		}
		sp.Seq = append(sp.Seq, 1, 1)
	case 5: // stop / restart while the probe is still inside its initial delay
		sp.Kind, sp.Delay, sp.Op = "initial-delay", 1+rng.Intn(2), []string{"stop", "restart"}[rng.Intn(2)]
		sp.Seq = nil
		sp.Threshold = 3
	case 0: // guaranteed fatal run of failures
		at := rng.Intn(len(sp.Seq))
		sp.Seq = sp.Seq[:at]
		for k := 0; k < sp.Threshold; k++ {
			sp.Seq = append(sp.Seq, 0)
		}
		sp.Seq = append(sp.Seq, 1, 1)
	case 1:
		sp.Daemon = true
		sp.Seq = []int{1, 1}
		for k := 0; k < sp.Threshold; k++ {
			sp.Seq = append(sp.Seq, 0)
		}
		sp.Seq = append(sp.Seq, 1)
	}
	sp.Dependent = !sp.Daemon && rng.Intn(2) == 0
	if i%12 == 3 {
		// daemon with a slow launcher: the liveness probe fails from the start
		// and reaches its threshold before the launcher command has returned
		sp = pbSpec{Threshold: 1 + rng.Intn(2), Restart: []string{"no", "always", ""}[rng.Intn(3)], Daemon: true, LauncherMs: 1500}
		for k := 0; k < sp.Threshold+2; k++ {
			sp.Seq = append(sp.Seq, 0)
		}
	}
	if i%12 == 7 {
		// restart storm: the prober is stopped and started again hundreds of
		// times, each time from inside its own failure callback
		sp = pbSpec{Threshold: 1, Restart: "always", Storm: true}
	}
	return sp
}

// runExecProbeCase: the readiness probe is a real shell command that succeeds,
// fails with an exit code, hangs beyond its timeout, is killed by a signal or
// cannot be run at all.
func runExecProbeCase(c fw.Case, sp pbSpec) fw.Result {
	cmds := map[string]string{"ok": "true", "exit3": "exit 3", "hang": "sleep 20", "killed": "kill -9 $$", "nocmd": "/nonexistent/pcverif-probe"}
	failing := sp.Exec != "ok"
	spec := LifeSpec{BackoffUnitMs: 20, SilenceMs: 15000, MaxMs: 50000, EndWithShutdown: true}
	spec.Procs = []PSpec{{Name: "hp", RunMs: []int{-1}, Restart: "no", ProbeExec: cmds[sp.Exec], ProbeFail: sp.Threshold}}
	if failing {
		// progress-paced: wait (bounded) for the stop signal the failures must cause
		spec.Ops = []Op{{When: "signal:hp", Op: "sleep", N: 50}}
	} else {
		spec.Ops = []Op{{When: "health:hp:" + types.ProcessHealthReady, Op: "sleep", N: 1200}}
	}
	lr := RunLife(c.Seed, &spec, nil)
	r := fw.Result{NonTrivial: true}
	if lr.LoadErr != nil {
		r.Inconclusive = "load: " + lr.LoadErr.Error()
		return r
	}
	if lr.Outcome != sim.RunReturned {
		r.Dirty = true
		r.Inconclusive = "run did not return"
	}
	ix := indexLife(lr.Events)
	sd := 1 << 30
	if len(ix.shutdownEnter) > 0 {
		sd = ix.shutdownEnter[0]
	}
	ready, notReady, signalled := false, 0, false
	for _, e := range lr.Events {
		if e.Proc != "hp" || e.Seq > sd {
			continue
		}
		switch e.Kind {
		case sim.EvHealth:
			if e.Str == types.ProcessHealthReady {
				ready = true
			}
			if e.Str == types.ProcessHealthNotReady {
				notReady++
			}
		case sim.EvSignal:
			signalled = true
		}
	}
	r.Count("exec_probe_cases", 1)
	if failing {
		if ready {
			r.Add("C10", "ready-without-success", "hp was reported Ready although its exec readiness probe (%s: %q) never succeeded", sp.Exec, cmds[sp.Exec])
		}
		if !signalled {
			r.Add("C10", "no-stop-after-threshold", "hp was not stopped although its exec readiness probe (%s: %q, failure_threshold %d) can only fail (waited for the stop for 12 s)", sp.Exec, cmds[sp.Exec], sp.Threshold)
		}
	} else {
		if !ready {
			r.Add("C10", "not-ready-despite-success", "hp was never reported Ready although its exec readiness probe (%q) succeeds (waited 10 s)", cmds[sp.Exec])
		}
		if signalled {
			r.Add("C10", "stopped-before-threshold", "hp was stopped although its exec readiness probe (%q) succeeds", cmds[sp.Exec])
		}
	}
	if len(r.Findings) > 0 {
		r.Witness = witness(lr, 200)
	}
	r.Sig = sim.Hash(fmt.Sprint(sp.Exec, sp.Threshold))
	return r
}

// runSlowProbeCase: the process is stopped (or restarted) while a probe that
// will succeed is still waiting for its answer; the late success belongs to a
// command that is gone.
func runSlowProbeCase(c fw.Case, sp pbSpec) fw.Result {
	spec := LifeSpec{BackoffUnitMs: 20, SilenceMs: 8000, MaxMs: 40000, EndWithShutdown: true}
	spec.Procs = []PSpec{{Name: "hp", RunMs: []int{-1}, Restart: "no", Probe: true, ProbeFail: 3, ProbeSlowMs: 400, ProbeSeq: []int{1, 1, 1, 1, 1, 1, 1, 1}}}
	spec.Ops = []Op{
		{When: fmt.Sprintf("probe:hp:%d", sp.Threshold), Op: "sleep", N: 50},
		{When: "now", Op: "stop", Proc: "hp"},
		{When: "now", Op: "sleep", N: 900},
	}
	lr := RunLife(c.Seed, &spec, nil)
	r := fw.Result{NonTrivial: true}
	if lr.LoadErr != nil {
		r.Inconclusive = "load: " + lr.LoadErr.Error()
		return r
	}
	ix := indexLife(lr.Events)
	exitSeq := -1
	for _, e := range lr.Events {
		if e.Proc == "hp" && e.Kind == sim.EvExit {
			exitSeq = e.Seq
		}
		if e.Proc == "hp" && e.Kind == sim.EvHealth && e.Str == types.ProcessHealthReady && exitSeq >= 0 && e.Seq > exitSeq && !ix.aliveAt("hp", e.Seq) {
			r.Add("C10", "ready-while-not-running", "hp was stopped while a readiness probe was waiting for its answer; the late success made it report Ready (seq %d) although its command had exited (seq %d)", e.Seq, exitSeq)
			break
		}
	}
	if exitSeq < 0 {
		r.Inconclusive = "hp was never stopped"
	}
	r.Count("slow_probe_cases", 1)
	if len(r.Findings) > 0 {
		r.Witness = witness(lr, 200)
	}
	r.Sig = sim.Hash(fmt.Sprint("slow", sp.Threshold))
	return r
}

func runProbeCase(c fw.Case) fw.Result {
	var sp pbSpec
	c.Params(&sp)
	if sp.Exec != "" {
		return runExecProbeCase(c, sp)
	}
	if sp.Kind == "slow-probe-stop" {
		return runSlowProbeCase(c, sp)
	}
	if sp.Kind == "initial-delay" {
		return runProbeDelayCase(c, sp)
	}
	spec := LifeSpec{BackoffUnitMs: 20, SilenceMs: 8000, MaxMs: 40000}
	if sp.Storm {
		spec.BackoffUnitMs = 1
		spec.NoOutEvents = true
	}
	p := PSpec{Name: "hp", RunMs: []int{-1}, Restart: sp.Restart, ProbeSeq: sp.Seq}
	if sp.Daemon {
		p.Daemon = true
		p.RunMs = []int{sp.LauncherMs}
		p.Liveness = true
		p.LiveFail = sp.Threshold
	} else {
		p.Probe = true
		p.ProbeFail = sp.Threshold
	}
	if sp.SelfExitMs > 0 && !sp.Daemon {
		p.RunMs, p.Exits = []int{sp.SelfExitMs, -1}, []int{3}
	}
	spec.Procs = []PSpec{p}
	if sp.Dependent {
		spec.Procs = append(spec.Procs, PSpec{Name: "dp", RunMs: []int{-1}, Deps: []Dep{{On: "hp", Cond: types.ProcessConditionHealthy}}})
	}
	// probes are served on the full second: the shutdown lands in between
	spec.Ops = []Op{{When: fmt.Sprintf("t:%d", (len(sp.Seq)+2)*1000+500), Op: "shutdown"}}
	if sp.Storm {
		spec.Ops = []Op{{When: "t:5000", Op: "shutdown"}}
	}
	lr := RunLife(c.Seed, &spec, nil)
	r := fw.Result{NonTrivial: true}
	if lr.LoadErr != nil {
		r.Inconclusive = "load: " + lr.LoadErr.Error()
		return r
	}
	if lr.Outcome != sim.RunReturned {
		r.Dirty = true
		if lr.Outcome == sim.RunHang {
			r.Add("C10", "run-hang", "Run() did not return after the probe scenario (%+v)", sp)
		} else {
			r.Inconclusive = "run did not return"
		}
	}
	ix := indexLife(lr.Events)
	shutdownSeq := 1 << 30
	var shutdownT int64 = 1 << 62
	if len(ix.shutdownEnter) > 0 {
		shutdownSeq = ix.shutdownEnter[0]
		shutdownT = lr.Events[shutdownSeq].T
	}
	restartable := sp.Restart == "always" || sp.Restart == "on_failure"
	pl := ix.procs["hp"]
	// walk the log attempt by attempt
	att := 0          // current attempt (launch number), 0 = none yet
	consec := 0       // consecutive failed probes served to the current attempt
	fatalAt := -1     // seq of the probe that completed the threshold for the current attempt
	lastOutcome := -1 // most recent probe outcome of the current attempt
	sawOK := false
	signalled := false // current attempt received its stop signal
	probes := 0
	fatalRuns := 0
	endAttempt := func(nextLaunchSeq int) {
		// judged when the next attempt starts or at the end
		if fatalAt >= 0 && !sp.Daemon && !signalled {
			r.Add("C10", "no-stop-after-threshold", "hp (attempt %d) failed %d consecutive readiness probes (threshold reached at seq %d) but was not stopped", att, sp.Threshold, fatalAt)
		}
	}
	for i := range lr.Events {
		e := &lr.Events[i]
		if e.Proc != "hp" {
			continue
		}
		if e.Seq > shutdownSeq {
			break
		}
		switch e.Kind {
		case sim.EvLaunch:
			if att > 0 {
				endAttempt(e.Seq)
			}
			att = e.Att
			consec, fatalAt, lastOutcome, sawOK, signalled = 0, -1, -1, false, false
		case sim.EvProbe:
			probes++
			if e.Flag {
				lastOutcome, sawOK, consec = 1, true, 0
			} else {
				lastOutcome = 0
				consec++
				if consec == sp.Threshold && fatalAt < 0 {
					// a threshold reached less than 300 ms before the shutdown is not judged
					if shutdownT-e.T > 300e6 {
						fatalAt = e.Seq
						fatalRuns++
					}
				}
			}
		case sim.EvHealth:
			if sp.Daemon {
				continue
			}
			r.Count("health_writes_checked", 1)
			switch e.Str {
			case types.ProcessHealthReady:
				if !sawOK || lastOutcome != 1 {
					r.Add("C10", "ready-without-success", "hp reported Ready (seq %d) but the most recent probe since its launch did not succeed", e.Seq)
				}
				if !ix.aliveAt("hp", e.Seq) {
					r.Add("C10", "ready-while-not-running", "hp reported Ready (seq %d) while none of its commands is alive", e.Seq)
				}
			case types.ProcessHealthNotReady:
				if lastOutcome != 0 {
					r.Add("C10", "not-ready-without-failure", "hp reported Not Ready (seq %d) but the most recent probe did not fail", e.Seq)
				}
			}
		case sim.EvSignal:
			if e.Att == att && !signalled {
				signalled = true
				if fatalAt < 0 && shutdownT-e.T > 300e6 {
					r.Add("C10", "stopped-before-threshold", "hp (attempt %d) received a stop signal (seq %d) after %d consecutive failed probes, failure_threshold is %d", att, e.Seq, consec, sp.Threshold)
				}
			}
		case sim.EvState:
			// readiness is forgotten when restarted or stopped
			if (e.Str == types.ProcessStateRestarting || e.Str == types.ProcessStateTerminating) && e.Str2 != types.ProcessHealthUnknown {
				r.Add("C10", "readiness-not-reset", "hp is %s but still reports health %q (seq %d)", e.Str, e.Str2, e.Seq)
			}
		}
	}
	if att > 0 {
		endAttempt(shutdownSeq)
	}
	r.Count("probes_served", probes)
	r.Count("fatal_runs", fatalRuns)
	// relaunch iff the policy says so, after the first fatal run
	if pl != nil && fatalRuns > 0 {
		firstFatal := -1
		c2, a2 := 0, 0
		for i := range lr.Events {
			e := &lr.Events[i]
			if e.Proc != "hp" || e.Seq > shutdownSeq {
				continue
			}
			if e.Kind == sim.EvLaunch {
				c2, a2 = 0, e.Att
			}
			if e.Kind == sim.EvProbe {
				if e.Flag {
					c2 = 0
				} else {
					c2++
					if c2 == sp.Threshold && firstFatal < 0 && shutdownT-e.T > 300e6 {
						firstFatal = e.Seq
						_ = a2
					}
				}
			}
		}
		relaunched, completed := false, false
		for _, l := range pl.Launches {
			if l.Seq > firstFatal && l.Seq < shutdownSeq {
				relaunched = true
			}
		}
		for _, st := range pl.States {
			if st.Seq > firstFatal && st.Seq < shutdownSeq && st.Str == types.ProcessStateCompleted {
				completed = true
			}
		}
		if !sp.Daemon {
			if restartable && !relaunched {
				r.Add("C10", "not-relaunched-after-fatal", "hp (restart: %s) was stopped after the fatal readiness failure but not relaunched before the shutdown", sp.Restart)
			}
			if !restartable && relaunched {
				r.Add("C10", "relaunched-despite-policy", "hp (restart: %q) was relaunched after the fatal readiness failure", sp.Restart)
			}
		} else {
			if sp.Restart == "always" && !relaunched {
				r.Add("C10", "daemon-not-relaunched", "daemon hp (restart: always) failed %d liveness probes in a row but was not relaunched", sp.Threshold)
			}
			if (sp.Restart == "" || sp.Restart == "no") && !completed {
				r.Add("C10", "daemon-not-treated-as-exited", "daemon hp (no restart) failed %d liveness probes in a row but is not Completed", sp.Threshold)
			}
			if (sp.Restart == "" || sp.Restart == "no") && relaunched {
				r.Add("C10", "relaunched-despite-policy", "daemon hp (restart: %q) was relaunched after the liveness failure", sp.Restart)
			}
		}
	}
	if len(r.Findings) > 0 {
		r.Witness = witness(lr, 300)
	}
	r.Sig = sim.Hash(fmt.Sprint(sp))
	if c.Idx < 3 {
		r.Sample = map[string]any{"spec": sp, "events": sim.FormatEvents(lr.Events)}
	}
	return r
}

// runProbeDelayCase: a stop or restart request arrives while the readiness
// probe is still inside its initial delay; the endpoint always answers ok.
func runProbeDelayCase(c fw.Case, sp pbSpec) fw.Result {
	spec := LifeSpec{BackoffUnitMs: 20, SilenceMs: 8000, MaxMs: 40000}
	p := PSpec{Name: "hp", RunMs: []int{-1}, Probe: true, ProbeFail: 3, ProbeDelay: sp.Delay, ProbeSeq: []int{1}}
	spec.Procs = []PSpec{p}
	spec.Ops = []Op{
		{When: "launch:hp", Op: "probe_ok", Proc: "hp"},
		{When: "t:300", Op: sp.Op, Proc: "hp"},
		{When: fmt.Sprintf("t:%d", sp.Delay*1000+1500+sp.Delay*1000), Op: "shutdown"},
	}
	lr := RunLife(c.Seed, &spec, nil)
	r := fw.Result{NonTrivial: true}
	if lr.LoadErr != nil {
		r.Inconclusive = "load: " + lr.LoadErr.Error()
		return r
	}
	if lr.Outcome != sim.RunReturned {
		r.Dirty = true
		r.Inconclusive = "run did not return"
	}
	ix := indexLife(lr.Events)
	delayNs := int64(sp.Delay) * 1e9
	var lastLaunchT int64 = -1
	for i := range lr.Events {
		e := &lr.Events[i]
		if e.Proc != "hp" {
			continue
		}
		switch e.Kind {
		case sim.EvLaunch:
			lastLaunchT = e.T
		case sim.EvHealth:
			if e.Str != types.ProcessHealthReady {
				continue
			}
			r.Count("health_writes_checked", 1)
			if !ix.aliveAt("hp", e.Seq) {
				r.Add("C10", "ready-while-not-running", "hp reported Ready (seq %d) although it was stopped during the initial delay and none of its commands is alive", e.Seq)
			}
			// lower bound: the probe of the current command cannot have run before its initial delay elapsed
			if lastLaunchT >= 0 && e.T-lastLaunchT < delayNs-50e6 {
				r.Add("C10", "ready-before-own-probe", "hp reported Ready %.0f ms after its (re)launch although its readiness probe has an initial delay of %d s: the result of the previous instance's probe was used", float64(e.T-lastLaunchT)/1e6, sp.Delay)
			}
		}
	}
	if len(r.Findings) > 0 {
		r.Witness = witness(lr, 200)
	}
	r.Sig = sim.Hash(fmt.Sprint(sp))
	return r
}

// ------------------------------------------------------------------ parameter grid

func runProbeGrid(c fw.Case) fw.Result {
	r := fw.Result{NonTrivial: true}
	vals := []int{-5, 0, 1, 3}
	ports := []string{"", "0", "1", "80", "65535", "65536", "-1", "abc"}
	n := 0
	legal := func(p *health.Probe, where string, in string) {
		if p.InitialDelay < 0 || p.PeriodSeconds < 1 || p.TimeoutSeconds < 1 || p.SuccessThreshold < 1 || p.FailureThreshold < 1 {
			r.Add("C10", "illegal-effective-parameters", "%s: %s -> %+v", where, in, *p)
		}
		if p.HttpGet != nil && !(p.HttpGet.NumPort == 0 || (p.HttpGet.NumPort >= 1 && p.HttpGet.NumPort <= 65535)) {
			r.Add("C10", "illegal-effective-port", "%s: %s -> port %d", where, in, p.HttpGet.NumPort)
		}
	}
	for _, a := range vals {
		for _, b := range vals {
			for _, cc := range vals {
				for _, d := range vals {
					for _, e := range vals {
						for _, port := range ports {
							n++
							p := health.Probe{HttpGet: &health.HttpProbe{Port: port}, InitialDelay: a, PeriodSeconds: b, TimeoutSeconds: cc, SuccessThreshold: d, FailureThreshold: e}
							in := fmt.Sprintf("delay=%d period=%d timeout=%d success=%d failure=%d port=%q", a, b, cc, d, e, port)
							p.ValidateAndSetDefaults()
							legal(&p, "ValidateAndSetDefaults", in)
							once := p
							h1 := *p.HttpGet
							p.ValidateAndSetDefaults()
							if once.InitialDelay != p.InitialDelay || once.PeriodSeconds != p.PeriodSeconds || once.TimeoutSeconds != p.TimeoutSeconds ||
								once.SuccessThreshold != p.SuccessThreshold || once.FailureThreshold != p.FailureThreshold || h1 != *p.HttpGet {
								r.Add("C10", "defaults-not-idempotent", "ValidateAndSetDefaults applied twice changes the result for %s", in)
							}
							// legal configured values survive
							if a >= 0 && p.InitialDelay != a || b >= 1 && p.PeriodSeconds != b || cc >= 1 && p.TimeoutSeconds != cc || e >= 1 && p.FailureThreshold != e {
								r.Add("C10", "legal-value-changed", "%s -> %+v", in, p)
							}
						}
					}
				}
			}
		}
	}
	// num_port given directly (no textual port)
	for _, np := range []int{0, 1, 80, 65535, 65536, 70000, -1, -65536, 1 << 31} {
		for _, port := range []string{"", "8080", "abc"} {
			n++
			p := health.Probe{HttpGet: &health.HttpProbe{Port: port, NumPort: np}}
			p.ValidateAndSetDefaults()
			legal(&p, "ValidateAndSetDefaults", fmt.Sprintf("port=%q num_port=%d", port, np))
		}
	}
	r.Count("parameter_combinations", n)
	// the loader path on a sample of the grid
	dir, err := os.MkdirTemp(sim.Scratch, "pg-")
	if err == nil {
		defer os.RemoveAll(dir)
		k := 0
		for _, b := range vals {
			for _, e := range vals {
				for _, port := range ports {
					if port == "" {
						continue
					}
					k++
					y := fmt.Sprintf("version: \"0.5\"\nprocesses:\n  g:\n    command: 'true'\n    readiness_probe:\n      http_get:\n        host: localhost\n        port: %s\n      period_seconds: %d\n      failure_threshold: %d\n      initial_delay_seconds: %d\n", yq(port), b, e, b)
					f, _ := sim.WriteTemp(dir, fmt.Sprintf("g%d.yaml", k), y)
					prj, err := loadOnce([]string{f})
					if err != nil {
						continue
					}
					pc := prj.Processes["g"]
					if pc.ReadinessProbe == nil {
						r.Add("C10", "probe-lost-at-load", "probe missing after load: %s", strings.ReplaceAll(y, "\n", " | "))
						continue
					}
					legal(pc.ReadinessProbe, "loader", fmt.Sprintf("period=%d failure=%d port=%q", b, e, port))
				}
			}
		}
		r.Count("loader_combinations", k)
	}
	r.Sig = "grid"
	r.Sample = map[string]any{"combinations": n}
	return r
}

func init() {
	fw.Register(&fw.Property{
		ID: "C10", Level: "exploration",
		Rule:        "http probes against a harness endpoint that serves the k-th probe of a process with a scripted outcome and records it before answering (logical outcome sequence, real 1 s period): outcome sequences of length 2-10 over {ok, fail}, failure_threshold 1-3, restart policies {unset,no,always,on_failure}, readiness on a long-running process (optionally with a process_healthy dependent) and liveness on a daemon; oracle: Ready/Not Ready only after a matching served outcome, stop exactly at the threshold-th consecutive failure, relaunch iff the policy says so, readiness forgotten at Restarting/Terminating, daemon treated as exited; plus exec probes (success, exit code, hang past the timeout, killed, not runnable), a probe still in flight at a stop, daemons with a slow launcher, restart storms (threshold 1, ~1 ms back-off), and the complete parameter grid {-5,0,1,3}^5 x 8 port strings (+ num_port values) through ValidateAndSetDefaults (legality, idempotence) and the loader; distinct = outcome sequence x threshold x policy",
		Assumptions: []string{"success_threshold is documented as not implemented and not judged", "exec-probe and slow-probe cases wait for the event itself (stop signal / Ready report) under a 10-12 s watchdog"},
		Gen: func(seed int64, tier string) []fw.Case {
			var cs []fw.Case
			cs = append(cs, fw.MkCase("C10", "parameter-grid", 0, nil))
			for i, v := range []string{"ok", "exit3", "hang", "killed", "nocmd", "hang", "killed", "exit3"} {
				if i >= tierN(tier, 8, 8) {
					break
				}
				cs = append(cs, fw.MkCase("C10", "exec-probe", fw.SubSeed(seed, 900000+i), pbSpec{Exec: v, Threshold: 1 + i%2}))
			}
			for i := 0; i < tierN(tier, 4, 12); i++ {
				// stopped while the (1+i%3)-th probe is in flight
				cs = append(cs, fw.MkCase("C10", "slow-probe-stop", fw.SubSeed(seed, 910000+i), pbSpec{Kind: "slow-probe-stop", Threshold: 1 + i%3}))
			}
			for i := 0; i < tierN(tier, 6, 48); i++ {
				// Ready, then the command exits by itself and is restarted by its
				// policy: readiness must be forgotten at Restarting and the new
				// command is Ready only after a probe served to it succeeded
				// (seeded change C10-r4-2)
				s := fw.SubSeed(seed, 920000+i)
				rng := fw.Rand(s)
				cs = append(cs, fw.MkCase("C10", "ready-then-exits", s, pbSpec{Threshold: 1 + rng.Intn(3), Restart: []string{"always", "on_failure"}[i%2],
					Seq: []int{1, 1, 1, 1, 1, 1}, SelfExitMs: 1200 + rng.Intn(1700)}))
			}
			for i := 0; i < tierN(tier, 143, 2400); i++ {
				s := fw.SubSeed(seed, i)
				sp := genPbSpec(fw.Rand(s), i)
				kind := "probe-sequence"
				if sp.Storm {
					kind = "probe-restart-storm"
				}
				cs = append(cs, fw.MkCase("C10", kind, s, sp))
			}
			return cs
		},
		Run: func(c fw.Case) fw.Result {
			if c.Kind == "parameter-grid" {
				return runProbeGrid(c)
			}
			return runProbeCase(c)
		},
		Workers: func(string) int { return 48 },
	})
}
