package props

import (
	"fmt"
	"net"
	"net/http/httptest"
	"regexp"
	"strconv"
	"strings"
	"sync"
	"time"

	"github.com/f1bonacc1/process-compose/src/api"
	"github.com/f1bonacc1/process-compose/src/client"
	"github.com/gin-gonic/gin"
	"github.com/gorilla/websocket"

	"pcverif/fw"
	"pcverif/sim"
)

func init() { gin.SetMode(gin.ReleaseMode) }

// apiServer is the real REST router over a live runner plus the bundled client.
type apiServer struct {
	srv    *httptest.Server
	host   string
	port   int
	client *client.PcClient
}

// ginErrors collects what gin's recovery middleware writes (panic value and
// stack of a handler that panicked), so that a 5xx can be explained.
type lockedBuf struct {
	mu sync.Mutex
	b  []byte
}

func (l *lockedBuf) Write(p []byte) (int, error) {
	l.mu.Lock()
	l.b = append(l.b, p...)
	if len(l.b) > 1<<20 {
		l.b = l.b[len(l.b)-(1<<19):]
	}
	l.mu.Unlock()
	return len(p), nil
}
func (l *lockedBuf) String() string { l.mu.Lock(); defer l.mu.Unlock(); return string(l.b) }

var ginErrors = &lockedBuf{}

func startAPI(env *sim.Env) *apiServer {
	gin.DefaultErrorWriter = ginErrors
	engine := api.InitRoutes(false, api.NewPcApi(env.Runner))
	srv := httptest.NewServer(engine)
	addr := srv.Listener.Addr().(*net.TCPAddr)
	return &apiServer{srv: srv, host: "127.0.0.1", port: addr.Port, client: client.NewTcpClient("127.0.0.1", addr.Port, 1000)}
}

func (a *apiServer) close() {
	a.srv.CloseClientConnections()
	a.srv.Close()
}

var lineIDre = regexp.MustCompile(`#L\|([^|]+)\|(\d+)\|([oe])\|(\d+)#`)

// parseLineID extracts (proc, attempt, stream, k) from a scripted output line.
func parseLineID(s string) (string, int, string, int, bool) {
	m := lineIDre.FindStringSubmatch(s)
	if m == nil {
		return "", 0, "", 0, false
	}
	a, _ := strconv.Atoi(m[2])
	k, _ := strconv.Atoi(m[4])
	return m[1], a, m[3], k, true
}

type wsSpec struct {
	Mode    string `json:"mode"` // "reading" | "stalled" | "disconnect"
	Lines   int    `json:"lines"`
	LineLen int    `json:"line_len"`
	Offset  int    `json:"offset"`
	Tail    int    `json:"tail_lines_before_exit"`
	Others  int    `json:"other_followers"`
}

func wsFollowCases(seed int64, tier string) []fw.Case {
	var cs []fw.Case
	n := tierN(tier, 24, 200)
	for i := 0; i < n; i++ {
		s := fw.SubSeed(seed, 500000+i)
		rng := fw.Rand(s)
		sp := wsSpec{Mode: "reading", Lines: 200 + rng.Intn(3000), LineLen: rng.Intn(120), Offset: []int{0, 1, 5, 50, 1000}[rng.Intn(5)], Tail: 1 + rng.Intn(300), Others: rng.Intn(3)}
		if i%6 == 5 {
			sp.Mode = "disconnect"
		}
		cs = append(cs, fw.MkCase("C18", "ws-"+sp.Mode, s, sp))
	}
	for i := 0; i < tierN(tier, 1, 3); i++ {
		s := fw.SubSeed(seed, 600000+i)
		cs = append(cs, fw.MkCase("C18", "ws-stalled", s, wsSpec{Mode: "stalled", Lines: 40000, LineLen: 250, Offset: 0, Tail: 10, Others: 1}))
	}
	return cs
}

// closeOnce: the bundled log client must not be closed from two goroutines at
// once (its close message is an ordinary, unsynchronised write)
var wsCloseMu sync.Mutex
var wsClosed = map[*client.LogClient]bool{}

func closeOnce(lc *client.LogClient) {
	wsCloseMu.Lock()
	done := wsClosed[lc]
	wsClosed[lc] = true
	if len(wsClosed) > 4096 {
		wsClosed = map[*client.LogClient]bool{lc: true}
	}
	wsCloseMu.Unlock()
	if !done {
		_ = lc.CloseChannel()
	}
}

type wsCollector struct {
	mu    sync.Mutex
	lines []string
}

func (c *wsCollector) add(m api.LogMessage) {
	c.mu.Lock()
	c.lines = append(c.lines, m.Message)
	c.mu.Unlock()
}
func (c *wsCollector) snapshot() []string {
	c.mu.Lock()
	defer c.mu.Unlock()
	return append([]string(nil), c.lines...)
}

// checkFollowerSeq: the id-carrying stdout lines must be a gap-free,
// duplicate-free run ending with the last line the process wrote.
func checkFollowerSeq(who string, lines []string, lastK int, mustReachEnd bool, r *fw.Result) {
	prev := -1
	n := 0
	for _, l := range lines {
		_, _, st, k, ok := parseLineID(l)
		if !ok || st != "o" {
			continue
		}
		n++
		if prev >= 0 && k != prev+1 {
			what := "gap"
			if k <= prev {
				what = "duplicate-or-reorder"
			}
			r.Add("C18", "ws-follow-"+what, "%s: line %d is followed by line %d", who, prev, k)
			return
		}
		prev = k
	}
	if mustReachEnd && prev != lastK {
		r.Add("C18", "ws-follow-lost-tail", "%s: received %d lines, last id %d, the process' last line is %d", who, n, prev, lastK)
	}
	r.Count("ws_lines_received", n)
}

func runWsFollow(c fw.Case) fw.Result {
	var sp wsSpec
	c.Params(&sp)
	r := fw.Result{NonTrivial: true}
	spec := LifeSpec{BackoffUnitMs: 20, NoOutEvents: true, LogLength: 5000, SilenceMs: 5000, MaxMs: 40000,
		Procs: []PSpec{{Name: "lg", RunMs: []int{-1}, Out: []sim.Chunk{{Stream: "o", N: sp.Lines, Len: sp.LineLen}, {Stream: "o", N: sp.Tail, Len: sp.LineLen, When: "x"}}}}}
	spec.Ops = []Op{{When: "launch:lg", Op: "custom:follow"}, {When: "now", Op: "release", Proc: "lg"}}
	lastK := sp.Lines + sp.Tail - 1
	var srv *apiServer
	var main wsCollector
	others := make([]*wsCollector, sp.Others)
	var stalled *websocket.Conn
	var logClients []*client.LogClient
	blocked := false
	subscribedProof := false
	lr := RunLifeOpts(c.Seed, &spec, LifeOpts{
		Setup: func(env *sim.Env, lr *LifeRun) { srv = startAPI(env) },
		Custom: map[string]func(env *sim.Env, lr *LifeRun, op Op) error{
			"follow": func(env *sim.Env, lr *LifeRun, op Op) error {
				addr := fmt.Sprintf("%s:%d", srv.host, srv.port)
				for i := range others {
					others[i] = &wsCollector{}
					lc := client.NewLogClient(addr, "")
					if _, err := lc.ReadProcessLogs("lg", 3, true, others[i].add); err != nil {
						return err
					}
					logClients = append(logClients, lc)
				}
				switch sp.Mode {
				case "reading", "disconnect":
					lc := client.NewLogClient(addr, "")
					if _, err := lc.ReadProcessLogs("lg", sp.Offset, true, main.add); err != nil {
						return err
					}
					logClients = append(logClients, lc)
					if sp.Mode == "disconnect" {
						go func() {
							time.Sleep(2 * time.Millisecond)
							closeOnce(lc)
						}()
					}
				case "stalled":
					url := fmt.Sprintf("ws://%s/process/logs/ws?name=lg&offset=0&follow=true", addr)
					conn, _, err := websocket.DefaultDialer.Dial(url, nil)
					if err != nil {
						return err
					}
					stalled = conn // never read from
				}
				// proof of subscription before the process is allowed to go on:
				// a follower with a tail has received its first line
				deadline := time.Now().Add(2 * time.Second)
				for time.Now().Before(deadline) {
					ok := true
					for _, o := range others {
						if len(o.snapshot()) == 0 {
							ok = false
						}
					}
					if (sp.Mode == "reading") && sp.Offset > 0 && len(main.snapshot()) == 0 {
						ok = false
					}
					if ok {
						break
					}
					time.Sleep(time.Millisecond)
				}
				subscribedProof = len(main.snapshot()) > 0
				return nil
			},
		},
		Post: func(lr *LifeRun) {
			// give the followers a moment to drain what is in flight (bounded)
			deadline := time.Now().Add(3 * time.Second)
			for time.Now().Before(deadline) {
				done := true
				if sp.Mode == "reading" {
					l := main.snapshot()
					if len(l) == 0 || !strings.Contains(l[len(l)-1], fmt.Sprintf("|o|%d#", lastK)) {
						done = false
					}
				}
				for _, o := range others {
					l := o.snapshot()
					if len(l) == 0 || !strings.Contains(l[len(l)-1], fmt.Sprintf("|o|%d#", lastK)) {
						done = false
					}
				}
				if done {
					break
				}
				time.Sleep(5 * time.Millisecond)
			}
		},
	})
	if lr.LoadErr != nil {
		r.Inconclusive = lr.LoadErr.Error()
		return r
	}
	if srv != nil {
		defer srv.close()
	}
	if stalled != nil {
		defer stalled.Close()
	}
	ix := indexLife(lr.Events)
	exited := false
	if pl := ix.procs["lg"]; pl != nil && len(pl.Launches) > 0 && pl.Launches[0].ExitSeq >= 0 {
		exited = true
	}
	if lr.Outcome != sim.RunReturned {
		if exited && lr.Outcome == sim.RunHang {
			blocked = true
		} else {
			r.Inconclusive = fmt.Sprintf("run outcome %d", lr.Outcome)
			r.Dirty = true
			return r
		}
	}
	if blocked {
		r.Dirty = true
		key := "ws-follower-blocks-process"
		if sp.Mode == "stalled" {
			key = "ws-stalled-follower-blocks-process"
		}
		r.Add("C18", key, "the followed process wrote its last line and exited but never completed: the supervisor is blocked delivering its log to a websocket follower (mode %s)", sp.Mode)
		r.Witness = filterDumpWs(lr.Dump)
		return r
	}
	// in-memory log holds the most recent lines
	if got, err := lr.Env.Runner.GetProcessLog("lg", 1, 0); err == nil {
		if len(got) != 1 || !strings.Contains(got[0], fmt.Sprintf("|o|%d#", lastK)) {
			r.Add("C18", "runner-log-last-line", "GetProcessLog(lg,1,0) = %v, expected the last written line (id %d)", trunc(got), lastK)
		}
	}
	switch sp.Mode {
	case "reading":
		// without a tail there is no proof that the subscription was in place
		// before the process went on: then only order/no-duplicate is judged
		checkFollowerSeq("websocket follower", main.snapshot(), lastK, subscribedProof, &r)
	case "disconnect":
		checkFollowerSeq("websocket follower (disconnecting)", main.snapshot(), lastK, false, &r)
	}
	for i, o := range others {
		checkFollowerSeq(fmt.Sprintf("other follower %d (next to a %s follower)", i, sp.Mode), o.snapshot(), lastK, true, &r)
	}
	for _, lc := range logClients {
		closeOnce(lc)
	}
	if len(r.Findings) > 0 && r.Witness == nil {
		r.Witness = []string{fmt.Sprintf("spec %+v", sp), fmt.Sprintf("main follower received %d lines", len(main.snapshot()))}
	}
	r.Sig = fmt.Sprintf("ws:%s:%d:%d:%d", sp.Mode, sp.Lines, sp.Offset, len(main.snapshot()))
	return r
}

func filterDumpWs(d string) []string {
	var out []string
	for _, g := range strings.Split(d, "\n\n") {
		if strings.Contains(g, "process-compose/src/api") || strings.Contains(g, "pclog") {
			ls := strings.Split(g, "\n")
			if len(ls) > 16 {
				ls = ls[:16]
			}
			out = append(out, ls...)
			out = append(out, "")
		}
		if len(out) > 300 {
			break
		}
	}
	return out
}

type logMsg = api.LogMessage

func newLogClient(a *apiServer) *client.LogClient {
	return client.NewLogClient(fmt.Sprintf("%s:%d", a.host, a.port), "")
}
