package props

import (
	"fmt"
	"math/rand"
	"os"
	"sort"
	"strings"
	"time"

	"github.com/f1bonacc1/process-compose/src/types"

	"pcverif/fw"
	"pcverif/sim"
)

// ------------------------------------------------------------------ C14

type upProc struct {
	Name       string   `json:"name"`
	Tag        string   `json:"tag"` // travels in the script: identifies the argument version
	Exe        string   `json:"exe"` // "" = shell command; else entrypoint[0]
	Env        []string `json:"env,omitempty"`
	WorkingDir string   `json:"working_dir,omitempty"`
	Restart    string   `json:"restart,omitempty"`
	Backoff    int      `json:"backoff,omitempty"`
	ProbeCmd   string   `json:"probe_cmd,omitempty"` // liveness exec probe
	Signal     int      `json:"signal,omitempty"`
	Deps       []string `json:"deps,omitempty"`
	Disabled   bool     `json:"disabled,omitempty"`
}

type upSpec struct {
	Versions  [][]upProc `json:"versions"` // versions[0] = P, then successive P'
	Changed   [][]string `json:"changed"`  // per update: names whose launch-relevant config changed (by the mutator)
	Fields    [][]string `json:"fields"`   // per update: "name:field" descriptions
	ViaClient bool       `json:"via_client"`
}

func upYAML(procs []upProc, worldID int) string {
	var b strings.Builder
	b.WriteString("version: \"0.5\"\nprocesses:\n")
	for _, p := range procs {
		fmt.Fprintf(&b, "  %s:\n", p.Name)
		script := sim.Script{W: worldID, RunMs: []int{-1}, Tag: p.Tag}
		if p.Exe == "" {
			fmt.Fprintf(&b, "    command: %s\n", yq(sim.FormatCommand(script, "")))
		} else {
			fmt.Fprintf(&b, "    entrypoint:\n      - %s\n      - %s\n", yq(p.Exe), yq(sim.FormatCommand(script, "")))
		}
		if p.WorkingDir != "" {
			fmt.Fprintf(&b, "    working_dir: %s\n", yq(p.WorkingDir))
		}
		if p.Disabled {
			b.WriteString("    disabled: true\n")
		}
		if p.Restart != "" || p.Backoff != 0 {
			b.WriteString("    availability:\n")
			if p.Restart != "" {
				fmt.Fprintf(&b, "      restart: %s\n", yq(p.Restart))
			}
			if p.Backoff != 0 {
				fmt.Fprintf(&b, "      backoff_seconds: %d\n", p.Backoff)
			}
		}
		if p.Signal != 0 {
			fmt.Fprintf(&b, "    shutdown:\n      signal: %d\n", p.Signal)
		}
		if p.ProbeCmd != "" {
			fmt.Fprintf(&b, "    liveness_probe:\n      exec:\n        command: %s\n      period_seconds: 60\n      initial_delay_seconds: 50\n", yq(p.ProbeCmd))
		}
		if len(p.Env) > 0 {
			b.WriteString("    environment:\n")
			for _, e := range p.Env {
				fmt.Fprintf(&b, "      - %s\n", yq(e))
			}
		}
		if len(p.Deps) > 0 {
			b.WriteString("    depends_on:\n")
			for _, d := range p.Deps {
				fmt.Fprintf(&b, "      %s:\n        condition: process_started\n", d)
			}
		}
	}
	return b.String()
}

func genUpSpec(rng *rand.Rand, i int) upSpec {
	sp := upSpec{}
	names := []string{"ua", "ub", "uc", "ud", "ue"}
	n := 2 + rng.Intn(3)
	var cur []upProc
	for k := 0; k < n; k++ {
		p := upProc{Name: names[k], Tag: "v0"}
		if rng.Intn(3) == 0 {
			p.Exe = "progA"
		}
		if rng.Intn(2) == 0 {
			p.Env = []string{"E1=a", "E2=b"}
		}
		if rng.Intn(2) == 0 {
			p.WorkingDir = "/tmp"
		}
		if rng.Intn(3) == 0 {
			p.Restart = "on_failure"
		}
		if rng.Intn(3) == 0 {
			p.ProbeCmd = "true"
		}
		if k > 0 && rng.Intn(3) == 0 {
			p.Deps = []string{names[rng.Intn(k)]}
		}
		cur = append(cur, p)
	}
	sp.Versions = append(sp.Versions, cur)
	updates := 1 + rng.Intn(3)
	fields := []string{"args", "env-value", "env-add", "working_dir", "restart", "backoff", "probe", "signal", "deps", "executable", "none"}
	for u := 0; u < updates; u++ {
		next := make([]upProc, 0, len(cur))
		var changed, desc []string
		used := map[string]bool{}
		for _, p := range cur {
			used[p.Name] = true
		}
		for _, p := range cur {
			q := p
			q.Env = append([]string(nil), p.Env...)
			q.Deps = append([]string(nil), p.Deps...)
			action := rng.Intn(10)
			if i%4 == 0 {
				action = 3 + rng.Intn(7) // one-field-at-a-time sensitivity runs: never remove
			}
			if action == 0 && len(cur) > 1 {
				// removed - unless something still depends on it
				needed := false
				for _, o := range cur {
					for _, d := range o.Deps {
						if d == p.Name {
							needed = true
						}
					}
				}
				if !needed {
					desc = append(desc, p.Name+":removed")
					continue
				}
			}
			if action >= 5 {
				f := fields[rng.Intn(len(fields))]
				if i%4 == 0 && u == 0 {
					f = fields[(i/4)%len(fields)]
				}
				did := true
				switch f {
				case "args":
					q.Tag = fmt.Sprintf("v%d-%d", u+1, rng.Intn(100))
				case "env-value":
					if len(q.Env) > 0 {
						q.Env[0] = "E1=changed" + fmt.Sprint(u)
					} else {
						q.Env = []string{"E1=new"}
					}
				case "env-add":
					q.Env = append(q.Env, fmt.Sprintf("E%d=x", 3+u))
				case "working_dir":
					if q.WorkingDir == "/tmp" {
						q.WorkingDir = "/var/tmp"
					} else {
						q.WorkingDir = "/tmp"
					}
				case "restart":
					if q.Restart == "on_failure" {
						q.Restart = "always"
					} else {
						q.Restart = "on_failure"
					}
				case "backoff":
					q.Backoff = p.Backoff + 2
				case "probe":
					if q.ProbeCmd == "true" {
						q.ProbeCmd = "test -d /tmp"
					} else {
						q.ProbeCmd = "true"
					}
				case "signal":
					q.Signal = []int{2, 3, 1}[u%3] + 0
					if q.Signal == p.Signal {
						q.Signal = 10
					}
				case "deps":
					// depend on an earlier process it did not depend on yet (stays acyclic)
					did = false
					for _, o := range next {
						has := false
						for _, d := range q.Deps {
							if d == o.Name {
								has = true
							}
						}
						if !has && o.Name < q.Name {
							q.Deps = append(q.Deps, o.Name)
							did = true
							break
						}
					}
				case "executable":
					if q.Exe == "" {
						did = false
					} else if q.Exe == "progA" {
						q.Exe = "progB"
					} else {
						q.Exe = "progA"
					}
				case "none":
					did = false
				}
				if did {
					changed = append(changed, q.Name)
					desc = append(desc, q.Name+":"+f)
				}
			}
			next = append(next, q)
		}
		// dependencies on removed processes are dropped (counts as a change)
		alive := map[string]bool{}
		for _, p := range next {
			alive[p.Name] = true
		}
		for k := range next {
			var deps []string
			for _, d := range next[k].Deps {
				if alive[d] {
					deps = append(deps, d)
				}
			}
			next[k].Deps = deps
		}
		if rng.Intn(3) == 0 {
			for _, nm := range names {
				if !used[nm] {
					next = append(next, upProc{Name: nm, Tag: fmt.Sprintf("new%d", u), Env: []string{"N=1"}})
					desc = append(desc, nm+":added")
					break
				}
			}
		}
		sp.Versions = append(sp.Versions, next)
		sp.Changed = append(sp.Changed, changed)
		sp.Fields = append(sp.Fields, desc)
		cur = next
	}
	return sp
}

func procMap(ps []upProc) map[string]*upProc {
	m := map[string]*upProc{}
	for i := range ps {
		m[ps[i].Name] = &ps[i]
	}
	return m
}

func runUpdate(c fw.Case) fw.Result {
	var sp upSpec
	c.Params(&sp)
	r := fw.Result{}
	w := sim.NewWorld(c.Seed)
	w.KeepEnv = true
	w.BackoffUnit = 5 * time.Millisecond
	sim.SetCurrent(w)
	defer sim.Forget(w)
	dir, err := os.MkdirTemp(sim.Scratch, "up-")
	if err != nil {
		r.Inconclusive = err.Error()
		return r
	}
	defer os.RemoveAll(dir)
	env, err := sim.NewEnv(w, upYAML(sp.Versions[0], w.ID), sim.EnvOpts{})
	if err != nil {
		r.Inconclusive = "load: " + err.Error()
		w.Close()
		return r
	}
	defer env.Cleanup()
	env.Start()
	enabled := func(ps []upProc) int {
		n := 0
		for _, p := range ps {
			if !p.Disabled {
				n++
			}
		}
		return n
	}
	waitAlive := func(n int) bool {
		return w.WaitFor(5*time.Second, func(v *sim.WorldView) bool { return v.AliveTotal() == n })
	}
	if !waitAlive(enabled(sp.Versions[0])) {
		r.Inconclusive = "initial project did not come up"
		r.Dirty = true
		return r
	}
	var api *apiServer
	if sp.ViaClient {
		api = startAPI(env)
		defer api.close()
	}
	for u := 1; u < len(sp.Versions); u++ {
		oldV, newV := procMap(sp.Versions[u-1]), procMap(sp.Versions[u])
		f, _ := sim.WriteTemp(dir, fmt.Sprintf("v%d.yaml", u), upYAML(sp.Versions[u], w.ID))
		prj, err := loadOnce([]string{f})
		if err != nil {
			r.Inconclusive = fmt.Sprintf("load of version %d: %v", u, err)
			break
		}
		nBefore := len(w.Events())
		var status map[string]string
		callErr := env.Call("update", "", u, func() error {
			var e error
			if api != nil {
				status, e = api.client.UpdateProject(prj)
			} else {
				status, e = env.Runner.UpdateProject(prj)
			}
			return e
		})
		if callErr != nil {
			r.Add("C14", "update-error", "update %d failed: %v (status %v)", u, callErr, status)
			break
		}
		if !waitAlive(enabled(sp.Versions[u])) {
			r.Add("C14", "live-commands", "update %d (%v): %d commands alive afterwards, the new configuration has %d enabled processes", u, sp.Fields[u-1], w.AliveCount(), enabled(sp.Versions[u]))
			break
		}
		// expected status map
		want := map[string]string{}
		changed := map[string]bool{}
		for _, n := range sp.Changed[u-1] {
			changed[n] = true
		}
		for n := range newV {
			if _, ok := oldV[n]; !ok {
				want[n] = types.ProcessUpdateAdded
			} else if changed[n] || fmt.Sprint(newV[n].Deps) != fmt.Sprint(oldV[n].Deps) {
				want[n] = types.ProcessUpdateUpdated
				changed[n] = true
			}
		}
		for n := range oldV {
			if _, ok := newV[n]; !ok {
				want[n] = types.ProcessUpdateRemoved
			}
		}
		r.Count("updates_checked", 1)
		if canon(status) != canon(want) {
			key := "status-map"
			for n, v := range want {
				if status[n] != v {
					key = "status-map:missing-" + v
					if v == types.ProcessUpdateUpdated {
						for _, d := range sp.Fields[u-1] {
							if strings.HasPrefix(d, n+":") {
								key = "status-map:unnoticed-change:" + strings.TrimPrefix(d, n+":")
							}
						}
					}
				}
			}
			for n := range status {
				if _, ok := want[n]; !ok {
					key = "status-map:spurious-" + status[n]
				}
			}
			r.Add("C14", key, "update %d (%v): status map %v, expected %v", u, sp.Fields[u-1], status, want)
		}
		// configured set
		names, _ := env.Runner.GetLexicographicProcessNames()
		var wantNames []string
		for n := range newV {
			wantNames = append(wantNames, n)
		}
		sort.Strings(wantNames)
		if strings.Join(names, ",") != strings.Join(wantNames, ",") {
			r.Add("C14", "configured-set", "update %d: configured processes %v, expected %v", u, names, wantNames)
		}
		// events during the update
		delta := w.Events()[nBefore:]
		launched := map[string]*sim.Event{}
		signalled := map[string]bool{}
		for k := range delta {
			e := &delta[k]
			switch e.Kind {
			case sim.EvLaunch:
				launched[e.Proc] = e
			case sim.EvSignal:
				signalled[e.Proc] = true
			}
		}
		for n, np := range newV {
			op, existed := oldV[n]
			switch {
			case !existed:
				if !np.Disabled && launched[n] == nil {
					r.Add("C14", "added-not-launched", "update %d: new process %s was not launched", u, n)
				}
			case changed[n]:
				if !op.Disabled && !signalled[n] {
					r.Add("C14", "changed-not-stopped", "update %d (%v): %s changed but its old instance was not signalled", u, sp.Fields[u-1], n)
				}
				if !np.Disabled && launched[n] == nil {
					r.Add("C14", "changed-not-relaunched", "update %d (%v): %s changed but no new instance was launched", u, sp.Fields[u-1], n)
				}
			default:
				if launched[n] != nil || signalled[n] {
					r.Add("C14", "unchanged-disturbed", "update %d (%v): %s is unchanged but was %s", u, sp.Fields[u-1], n, map[bool]string{true: "relaunched", false: "signalled"}[launched[n] != nil])
				}
			}
			// the new launch uses the new configuration
			if e := launched[n]; e != nil {
				if e.Str != np.Tag {
					r.Add("C14", "launch-old-args", "update %d: %s launched with argument version %q, new configuration has %q", u, n, e.Str, np.Tag)
				}
				wantExe := "bash"
				if np.Exe != "" {
					wantExe = np.Exe
				}
				if len(e.Argv) == 0 || e.Argv[0] != wantExe {
					r.Add("C14", "launch-old-executable", "update %d: %s launched with executable %q, new configuration has %q", u, n, e.Argv[0], wantExe)
				}
				if e.Dir != np.WorkingDir {
					r.Add("C14", "launch-old-dir", "update %d: %s launched in %q, new configuration has %q", u, n, e.Dir, np.WorkingDir)
				}
				eff := effectiveEnv(e.Env)
				for k, v := range envMap(np.Env) {
					if eff[k] != v {
						r.Add("C14", "launch-old-env", "update %d: %s launched with %s=%q, new configuration has %q", u, n, k, eff[k], v)
					}
				}
				for k := range envMap(op0(oldV[n]).Env) {
					if _, still := envMap(np.Env)[k]; !still {
						if _, present := eff[k]; present {
							r.Add("C14", "launch-old-env", "update %d: %s launched with %s which the new configuration no longer defines", u, n, k)
						}
					}
				}
			}
			// stored configuration
			if info, err := env.Runner.GetProcessInfo(n); err != nil {
				r.Add("C14", "info-error", "update %d: GetProcessInfo(%s): %v", u, n, err)
			} else {
				want := prj.Processes[n]
				if canon(cfgView(info)) != canon(cfgView(&want)) {
					r.Add("C14", "stored-config", "update %d: stored configuration of %s differs from P'\n  runner: %s\n  P':     %s", u, n, canon(cfgView(info)), canon(cfgView(&want)))
				}
			}
		}
		for n, op := range oldV {
			if _, ok := newV[n]; ok {
				continue
			}
			if !op.Disabled && !signalled[n] {
				r.Add("C14", "removed-not-stopped", "update %d: removed process %s was not signalled", u, n)
			}
			if w.IsAlive(n) {
				r.Add("C14", "removed-still-alive", "update %d: removed process %s is still alive", u, n)
			}
		}
		if len(r.Findings) > 0 {
			break
		}
	}
	_ = env.Call("shutdown", "", 0, func() error { return env.Runner.ShutDownProject() })
	if out := env.WaitRun(4*time.Second, 30*time.Second); out != sim.RunReturned {
		r.Count("run_not_returned_after_updates", 1)
		r.Dirty = true
	}
	if len(r.Findings) > 0 {
		var wt []string
		for v := range sp.Versions {
			wt = append(wt, fmt.Sprintf("--- version %d ---", v))
			wt = append(wt, strings.Split(upYAML(sp.Versions[v], 0), "\n")...)
		}
		ev := sim.FormatEvents(w.Events())
		if len(ev) > 120 {
			ev = ev[len(ev)-120:]
		}
		r.Witness = append(wt, ev...)
	}
	r.NonTrivial = len(sp.Versions) > 1
	r.Sig = sim.Hash(fmt.Sprint(sp.Fields, len(sp.Versions[0])))
	if c.Idx < 2 {
		r.Sample = map[string]any{"mutations": sp.Fields}
	}
	return r
}

func op0(p *upProc) *upProc {
	if p == nil {
		return &upProc{}
	}
	return p
}

func init() {
	fw.Register(&fw.Property{
		ID: "C14", Level: "exploration",
		Rule:        "pairs and chains (1-3 successive updates) of generated projects of 2-5 long-running processes; P' differs from P by removed / added processes and by mutations of one or several launch-relevant fields (arguments, environment value / new entry, working dir, restart policy, back-off, probe, stop signal, dependencies, executable) - a quarter of the cases mutate exactly one field (field sensitivity) - or not at all; both projects go through the real loader; oracle: returned status map, configured set, stored configuration, and who was signalled / launched with which arguments, executable, directory and environment; distinct = mutation list",
		Assumptions: []string{"'changed' is decided by the mutator on the launch-relevant fields of the statement, independent of ProcessConfig.Compare", "description-only changes are not generated (the statement is silent)"},
		Gen: func(seed int64, tier string) []fw.Case {
			var cs []fw.Case
			for i := 0; i < tierN(tier, 600, 10000); i++ {
				s := fw.SubSeed(seed, i)
				cs = append(cs, fw.MkCase("C14", "update-chain", s, genUpSpec(fw.Rand(s), i)))
			}
			return cs
		},
		Run:     runUpdate,
		Workers: func(string) int { return 16 },
	})
}
