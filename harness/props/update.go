package props

import (
	"fmt"
	"math/rand"
	"os"
	"sort"
	"strings"
	"time"

	"github.com/f1bonacc1/process-compose/src/types"

	"pcverif/fw"
	"pcverif/sim"
)

// ------------------------------------------------------------------ C14

type upProc struct {
	Name       string   `json:"name"`
	Tag        string   `json:"tag"` // travels in the script: identifies the argument version
	Exe        string   `json:"exe"` // "" = shell command; else entrypoint[0]
	Env        []string `json:"env,omitempty"`
	WorkingDir string   `json:"working_dir,omitempty"`
	Restart    string   `json:"restart,omitempty"`
	Backoff    int      `json:"backoff,omitempty"`
	ProbeCmd   string   `json:"probe_cmd,omitempty"` // liveness exec probe
	Signal     int      `json:"signal,omitempty"`
	Deps       []string `json:"deps,omitempty"`
	Disabled   bool     `json:"disabled,omitempty"`
	Mode       string   `json:"mode,omitempty"`     // "" long-running | "restarting" (exits, restart always) | "pending" (waits for a dependency that never completes)
	Replicas   int      `json:"replicas,omitempty"` // replicated processes are kept, removed, or get one more replica
	Foreground bool     `json:"foreground,omitempty"`
	WaitDeps   bool     `json:"wait_deps,omitempty"` // dependencies carry condition process_completed instead of process_started: the process stays Pending
	SigMs      int      `json:"sig_ms,omitempty"`    // reaction time to the stop signal
}

type upSpec struct {
	Versions  [][]upProc `json:"versions"` // versions[0] = P, then successive P'
	Changed   [][]string `json:"changed"`  // per update: names whose launch-relevant config changed (by the mutator)
	Fields    [][]string `json:"fields"`   // per update: "name:field" descriptions
	Flex      [][]string `json:"flex"`     // per update: replicated processes whose count grew (existing replicas: kept or replaced)
	ViaClient bool       `json:"via_client"`
	// Overlap: the last update is issued twice, the second request while the
	// first is still waiting for removed / changed processes to die
	Overlap bool `json:"overlap,omitempty"`
}

func upYAML(procs []upProc, worldID int) string {
	var b strings.Builder
	b.WriteString("version: \"0.5\"\nprocesses:\n")
	fmt.Fprintf(&b, "  anchor:\n    command: %s\n", yq(sim.FormatCommand(sim.Script{W: worldID, RunMs: []int{-1}, Tag: "anchor"}, "")))
	for _, p := range procs {
		fmt.Fprintf(&b, "  %s:\n", p.Name)
		script := sim.Script{W: worldID, RunMs: []int{-1}, Tag: p.Tag}
		if p.SigMs > 0 {
			script.Sig = &sim.SigSpec{Ms: p.SigMs}
		}
		if p.Mode == "restarting" {
			script.RunMs, script.Exits = []int{3}, []int{1}
		}
		if p.Exe == "" {
			fmt.Fprintf(&b, "    command: %s\n", yq(sim.FormatCommand(script, "")))
		} else {
			fmt.Fprintf(&b, "    entrypoint:\n      - %s\n      - %s\n", yq(p.Exe), yq(sim.FormatCommand(script, "")))
		}
		if p.WorkingDir != "" {
			fmt.Fprintf(&b, "    working_dir: %s\n", yq(p.WorkingDir))
		}
		if p.Disabled {
			b.WriteString("    disabled: true\n")
		}
		if p.Foreground {
			b.WriteString("    is_foreground: true\n")
		}
		if p.Replicas > 1 {
			fmt.Fprintf(&b, "    replicas: %d\n", p.Replicas)
		}
		if p.Restart != "" || p.Backoff != 0 {
			b.WriteString("    availability:\n")
			if p.Restart != "" {
				fmt.Fprintf(&b, "      restart: %s\n", yq(p.Restart))
			}
			if p.Backoff != 0 {
				fmt.Fprintf(&b, "      backoff_seconds: %d\n", p.Backoff)
			}
		}
		if p.Signal != 0 {
			fmt.Fprintf(&b, "    shutdown:\n      signal: %d\n", p.Signal)
		}
		if p.ProbeCmd != "" {
			fmt.Fprintf(&b, "    liveness_probe:\n      exec:\n        command: %s\n      period_seconds: 60\n      initial_delay_seconds: 50\n", yq(p.ProbeCmd))
		}
		if len(p.Env) > 0 {
			b.WriteString("    environment:\n")
			for _, e := range p.Env {
				fmt.Fprintf(&b, "      - %s\n", yq(e))
			}
		}
		if len(p.Deps) > 0 || p.Mode == "pending" {
			b.WriteString("    depends_on:\n")
			for _, d := range p.Deps {
				cond := "process_started"
				if p.WaitDeps {
					cond = "process_completed"
				}
				fmt.Fprintf(&b, "      %s:\n        condition: %s\n", d, cond)
			}
			if p.Mode == "pending" {
				b.WriteString("      anchor:\n        condition: process_completed\n")
			}
		}
	}
	return b.String()
}

func genUpSpec(rng *rand.Rand, i int) upSpec {
	sp := upSpec{}
	names := []string{"ua", "ub", "uc", "ud", "ue"}
	n := 2 + rng.Intn(3)
	var cur []upProc
	for k := 0; k < n; k++ {
		p := upProc{Name: names[k], Tag: "v0"}
		if rng.Intn(3) == 0 {
			p.Exe = "progA"
		}
		if rng.Intn(2) == 0 {
			p.Env = []string{"E1=a", "E2=b"}
			if rng.Intn(2) == 0 {
				p.Env = []string{"E1=k=a", "E2=b"} // a value that contains '='
			}
		}
		if rng.Intn(2) == 0 {
			p.WorkingDir = "/tmp"
		}
		if rng.Intn(3) == 0 {
			p.Restart = "on_failure"
		}
		if rng.Intn(3) == 0 {
			p.ProbeCmd = "true"
		}
		if k > 0 && rng.Intn(3) == 0 {
			// only long-running processes are dependency targets
			if d := cur[rng.Intn(k)]; d.Mode == "" && !d.Disabled {
				p.Deps = []string{d.Name}
			}
		}
		if i%6 == 5 && rng.Intn(3) == 0 {
			p.Disabled = true
		}
		if i%3 == 1 {
			switch rng.Intn(4) {
			case 0:
				p.Mode, p.Restart, p.Deps = "restarting", "always", nil
			case 1:
				p.Mode = "pending"
			}
		}
		cur = append(cur, p)
	}
	if i%5 == 3 {
		cur = append(cur, upProc{Name: "ur", Tag: "v0", Replicas: 2 + rng.Intn(2)})
	}
	sp.Versions = append(sp.Versions, cur)
	updates := 1 + rng.Intn(3)
	frozen := map[string]bool{} // dependencies of a waiting process: never touched again
	fields := []string{"args", "env-value", "env-add", "working_dir", "restart", "backoff", "probe", "signal", "deps", "executable", "none", "dep-condition", "dep-retarget"}
	for u := 0; u < updates; u++ {
		next := make([]upProc, 0, len(cur))
		var changed, desc, flex []string
		used := map[string]bool{}
		for _, p := range cur {
			used[p.Name] = true
		}
		for _, p := range cur {
			q := p
			q.Env = append([]string(nil), p.Env...)
			q.Deps = append([]string(nil), p.Deps...)
			action := rng.Intn(10)
			if i%4 == 0 {
				action = 3 + rng.Intn(7) // one-field-at-a-time sensitivity runs: never remove
			}
			if frozen[p.Name] && (action == 0 || action >= 5) {
				action = 1
			}
			if p.Replicas > 1 && action >= 1 {
				if action >= 7 && p.Replicas < 9 {
					// one more replica, same name width: the existing replicas may be
					// kept or replaced (the statement is silent), the new one is added
					q.Replicas = p.Replicas + 1
					desc = append(desc, p.Name+":replicas")
					flex = append(flex, p.Name)
				}
				action = 1
			}
			if action == 0 && len(cur) > 1 {
				// removed - unless something still depends on it
				needed := false
				for _, o := range cur {
					for _, d := range o.Deps {
						if d == p.Name {
							needed = true
						}
					}
				}
				if !needed {
					desc = append(desc, p.Name+":removed")
					continue
				}
			}
			if action >= 5 {
				f := fields[rng.Intn(len(fields))]
				if i%4 == 0 && u == 0 {
					f = fields[(i/4)%len(fields)]
				}
				did := true
				switch f {
				case "args":
					q.Tag = fmt.Sprintf("v%d-%d", u+1, rng.Intn(100))
				case "env-value":
					if len(q.Env) > 0 && strings.Count(q.Env[0], "=") > 1 {
						q.Env[0] = "E1=k=changed" + fmt.Sprint(u) // differs only after the second '='
					} else if len(q.Env) > 0 {
						q.Env[0] = "E1=changed" + fmt.Sprint(u)
					} else {
						q.Env = []string{"E1=new"}
					}
				case "env-add":
					q.Env = append(q.Env, fmt.Sprintf("E%d=x", 3+u))
				case "working_dir":
					if q.WorkingDir == "/tmp" {
						q.WorkingDir = "/var/tmp"
					} else {
						q.WorkingDir = "/tmp"
					}
				case "restart":
					if q.Mode == "restarting" {
						did = false
					} else if q.Restart == "on_failure" {
						q.Restart = "always"
					} else {
						q.Restart = "on_failure"
					}
				case "backoff":
					q.Backoff = p.Backoff + 2
				case "probe":
					if q.ProbeCmd == "true" {
						q.ProbeCmd = "test -d /tmp"
					} else {
						q.ProbeCmd = "true"
					}
				case "signal":
					q.Signal = []int{2, 3, 1}[u%3] + 0
					if q.Signal == p.Signal {
						q.Signal = 10
					}
				case "deps":
					// depend on an earlier process it did not depend on yet (stays acyclic)
					did = false
					for _, o := range next {
						if q.WaitDeps {
							break
						}
						has := false
						for _, d := range q.Deps {
							if d == o.Name {
								has = true
							}
						}
						if !has && o.Name < q.Name && o.Mode == "" && !o.Disabled && !o.waits() {
							q.Deps = append(q.Deps, o.Name)
							did = true
							break
						}
					}
				case "dep-condition":
					// only the condition of the existing dependencies changes
					did = len(q.Deps) > 0 && q.Mode == "" && !q.Disabled
					for _, o := range cur {
						for _, d := range o.Deps {
							if d == q.Name {
								did = false // something depends on it: it has to come up
							}
						}
					}
					for _, d := range q.Deps {
						for _, c := range changed {
							if c == d {
								did = false // its dependency is replaced by this very update
							}
						}
					}
					if did {
						q.WaitDeps = !q.WaitDeps
						for _, d := range q.Deps {
							frozen[d] = true
						}
					}
				case "dep-retarget":
					// same number of dependencies, one of them points elsewhere
					did = false
					if len(q.Deps) > 0 && q.Mode == "" && !q.WaitDeps {
						for _, o := range next {
							has := false
							for _, d := range q.Deps {
								if d == o.Name {
									has = true
								}
							}
							if !has && o.Name < q.Name && o.Mode == "" && !o.Disabled && !o.waits() {
								q.Deps[len(q.Deps)-1] = o.Name
								did = true
								break
							}
						}
					}
				case "executable":
					if q.Exe == "" {
						did = false
					} else if q.Exe == "progA" {
						q.Exe = "progB"
					} else {
						q.Exe = "progA"
					}
				case "none":
					did = false
				}
				if did {
					changed = append(changed, q.Name)
					desc = append(desc, q.Name+":"+f)
				}
			}
			next = append(next, q)
		}
		// dependencies on removed processes are dropped (counts as a change)
		alive := map[string]bool{}
		for _, p := range next {
			alive[p.Name] = true
		}
		for k := range next {
			var deps []string
			for _, d := range next[k].Deps {
				if alive[d] {
					deps = append(deps, d)
				}
			}
			next[k].Deps = deps
		}
		if rng.Intn(3) == 0 {
			for _, nm := range names {
				if !used[nm] {
					next = append(next, upProc{Name: nm, Tag: fmt.Sprintf("new%d", u), Env: []string{"N=1"}, Foreground: rng.Intn(5) == 0})
					desc = append(desc, nm+":added")
					break
				}
			}
		}
		sp.Versions = append(sp.Versions, next)
		sp.Changed = append(sp.Changed, changed)
		sp.Fields = append(sp.Fields, desc)
		sp.Flex = append(sp.Flex, flex)
		cur = next
	}
	if i%10 == 6 {
		sp.Overlap = true
		for v := range sp.Versions {
			for k := range sp.Versions[v] {
				sp.Versions[v][k].SigMs = 30 + int(sp.Versions[v][k].Name[1]-'a')*9
			}
		}
	}
	return sp
}

// waits: the process never gets past Pending while the project runs
func (p *upProc) waits() bool {
	return p.Mode == "pending" || (p.WaitDeps && len(p.Deps) > 0)
}

func procMap(ps []upProc) map[string]*upProc {
	m := map[string]*upProc{}
	for i := range ps {
		m[ps[i].Name] = &ps[i]
	}
	return m
}

// instances expands a version into replica name -> process
func instances(ps []upProc) map[string]*upProc {
	m := map[string]*upProc{}
	for i := range ps {
		n := ps[i].Replicas
		if n < 1 {
			n = 1
		}
		for k := 0; k < n; k++ {
			m[refReplicaName(ps[i].Name, n, k)] = &ps[i]
		}
	}
	return m
}

func steadyAlive(ps []upProc) int {
	n := 1 // the anchor
	for _, p := range ps {
		if p.Disabled || p.Mode != "" || p.Foreground || p.waits() {
			continue
		}
		k := p.Replicas
		if k < 1 {
			k = 1
		}
		n += k
	}
	return n
}

func runUpdate(c fw.Case) fw.Result {
	var sp upSpec
	c.Params(&sp)
	r := fw.Result{}
	w := sim.NewWorld(c.Seed)
	w.KeepEnv = true
	w.BackoffUnit = 5 * time.Millisecond
	sim.SetCurrent(w)
	defer sim.Forget(w)
	dir, err := os.MkdirTemp(sim.Scratch, "up-")
	if err != nil {
		r.Inconclusive = err.Error()
		return r
	}
	defer os.RemoveAll(dir)
	env, err := sim.NewEnv(w, upYAML(sp.Versions[0], w.ID), sim.EnvOpts{})
	if err != nil {
		r.Inconclusive = "load: " + err.Error()
		w.Close()
		return r
	}
	defer env.Cleanup()
	env.Start()
	restarting := func(ps []upProc) []string {
		var out []string
		for _, p := range ps {
			if p.Mode == "restarting" && !p.Disabled {
				out = append(out, p.Name)
			}
		}
		return out
	}
	// steady state: the long-running commands are alive (the restarting ones come and go)
	waitSteady := func(ps []upProc) bool {
		want := steadyAlive(ps)
		rs := map[string]bool{}
		for _, n := range restarting(ps) {
			rs[n] = true
		}
		return w.WaitFor(5*time.Second, func(v *sim.WorldView) bool {
			n := 0
			for _, a := range aliveNamesView(v, w) {
				if !rs[a] {
					n++
				}
			}
			return n == want
		})
	}
	if !waitSteady(sp.Versions[0]) {
		r.Inconclusive = "initial project did not come up"
		r.Dirty = true
		return r
	}
	var api *apiServer
	if sp.ViaClient {
		api = startAPI(env)
		defer api.close()
	}
	for u := 1; u < len(sp.Versions); u++ {
		oldV, newV := instances(sp.Versions[u-1]), instances(sp.Versions[u])
		f, _ := sim.WriteTemp(dir, fmt.Sprintf("v%d.yaml", u), upYAML(sp.Versions[u], w.ID))
		prj, err := loadOnce([]string{f})
		if err != nil {
			r.Inconclusive = fmt.Sprintf("load of version %d: %v", u, err)
			break
		}
		// restarting processes: let them go through at least one more cycle first
		for _, n := range restarting(sp.Versions[u-1]) {
			have := w.Launches(n)
			w.WaitFor(2*time.Second, func(v *sim.WorldView) bool { return v.Launches(n) > have })
		}
		nBefore := len(w.Events())
		var status map[string]string
		doUpdate := func(into *map[string]string) error {
			return env.Call("update", "", u, func() error {
				var e error
				if api != nil {
					*into, e = api.client.UpdateProject(prj)
				} else {
					*into, e = env.Runner.UpdateProject(prj)
				}
				return e
			})
		}
		var callErr error
		if sp.Overlap && u == len(sp.Versions)-1 {
			// the same P' twice, the second request while the first is applying
			var st2 map[string]string
			done2 := make(chan error, 1)
			sigBefore := 0
			for _, e := range w.Events() {
				if e.Kind == sim.EvSignal {
					sigBefore++
				}
			}
			go func() {
				w.WaitFor(300*time.Millisecond, func(v *sim.WorldView) bool { return v.Count(sim.EvSignal, "") > sigBefore })
				done2 <- doUpdate(&st2)
			}()
			callErr = doUpdate(&status)
			if e2 := <-done2; callErr == nil {
				callErr = e2
			}
			r.Count("overlapping_updates", 1)
			for n, v := range st2 {
				if prev, dup := status[n]; dup && callErr == nil && prev != types.ProcessUpdateError && v != types.ProcessUpdateError {
					r.Add("C14", "overlapping-updates-both-applied", "update %d issued twice concurrently: %s was reported %s by one request and %s by the other", u, n, prev, v)
				}
				if status == nil {
					status = map[string]string{}
				}
				status[n] = v
			}
		} else {
			callErr = doUpdate(&status)
		}
		retSeq := len(w.Events())
		if callErr == nil {
			// through the REST client a partial failure comes back as status
			// entries only (207 Multi-Status)
			for n, v := range status {
				if v == types.ProcessUpdateError {
					callErr = fmt.Errorf("status of %s: %s (no such process?)", n, v)
				}
			}
		}
		if callErr != nil {
			// a changed/removed process whose command exited by itself at the very
			// moment it was to be stopped makes the stop - and with it the update -
			// report "no such process": the update did not succeed, the statement
			// does not apply (counted, not judged)
			raced := false
			for _, e := range w.Events()[nBefore:] {
				if e.Kind == sim.EvSignal && e.Str == "dead" {
					raced = true
				}
			}
			if raced && (strings.Contains(callErr.Error(), "no such process") || sp.ViaClient) {
				r.Count("update_failed_stop_raced_with_exit", 1)
				break
			}
			r.Add("C14", "update-error", "update %d failed: %v (status %v)", u, callErr, status)
			break
		}
		if !waitSteady(sp.Versions[u]) {
			r.Add("C14", "live-commands", "update %d (%v): live long-running commands %v, the new configuration has %d", u, sp.Fields[u-1], w.AliveNames(), steadyAlive(sp.Versions[u]))
			break
		}
		// never two live commands under one name
		seenAlive := map[string]int{}
		for _, a := range w.AliveInfo() {
			seenAlive[a.Name]++
		}
		for n, k := range seenAlive {
			if k > 1 {
				r.Add("C14", "duplicate-instance", "update %d (%v): %d commands of %s are alive at the same time", u, sp.Fields[u-1], k, n)
			}
		}
		// new restarting / pending instances settle: give restarting ones a cycle
		for _, n := range restarting(sp.Versions[u]) {
			have := w.Launches(n)
			w.WaitFor(2*time.Second, func(v *sim.WorldView) bool { return v.Launches(n) > have })
		}
		// expected status map
		want := map[string]string{}
		changed := map[string]bool{}
		for _, n := range sp.Changed[u-1] {
			changed[n] = true
		}
		for n, np := range newV {
			op, ok := oldV[n]
			if !ok {
				want[n] = types.ProcessUpdateAdded
			} else if changed[np.Name] || fmt.Sprint(np.Deps) != fmt.Sprint(op.Deps) {
				want[n] = types.ProcessUpdateUpdated
				changed[np.Name] = true
			}
		}
		for n := range oldV {
			if _, ok := newV[n]; !ok {
				want[n] = types.ProcessUpdateRemoved
			}
		}
		// replicas of a process whose count grew: "updated" or untouched, both fine
		flex := map[string]bool{}
		if u-1 < len(sp.Flex) {
			for _, base := range sp.Flex[u-1] {
				for n, np := range newV {
					if _, existed := oldV[n]; np.Name == base && existed {
						flex[n] = true
						if status[n] == types.ProcessUpdateUpdated {
							changed[n] = true // per-instance decision, see below
						}
					}
				}
			}
		}
		cmpStatus, cmpWant := map[string]string{}, map[string]string{}
		for n, v := range status {
			if !flex[n] {
				cmpStatus[n] = v
			} else if v != types.ProcessUpdateUpdated {
				r.Add("C14", "status-map:spurious-"+v, "update %d (%v): existing replica %s reported as %s", u, sp.Fields[u-1], n, v)
			}
		}
		for n, v := range want {
			if !flex[n] {
				cmpWant[n] = v
			}
		}
		r.Count("updates_checked", 1)
		if canon(cmpStatus) != canon(cmpWant) {
			key := "status-map"
			for n, v := range want {
				if status[n] != v {
					key = "status-map:missing-" + v
					if v == types.ProcessUpdateUpdated {
						for _, d := range sp.Fields[u-1] {
							if strings.HasPrefix(d, n+":") {
								key = "status-map:unnoticed-change:" + strings.TrimPrefix(d, n+":")
							}
						}
					}
				}
			}
			for n := range status {
				if _, ok := want[n]; !ok {
					key = "status-map:spurious-" + status[n]
				}
			}
			r.Add("C14", key, "update %d (%v): status map %v, expected %v", u, sp.Fields[u-1], status, want)
		}
		// configured set
		names, _ := env.Runner.GetLexicographicProcessNames()
		wantNames := []string{"anchor"}
		for n := range newV {
			wantNames = append(wantNames, n)
		}
		sort.Strings(wantNames)
		if strings.Join(names, ",") != strings.Join(wantNames, ",") {
			r.Add("C14", "configured-set", "update %d: configured processes %v, expected %v", u, names, wantNames)
		}
		// events since the update was issued
		all := w.Events()
		delta := all[nBefore:]
		launched := map[string]*sim.Event{}
		signalled := map[string]bool{}
		lateOldLaunch := map[string]int{}
		for k := range delta {
			e := &delta[k]
			switch e.Kind {
			case sim.EvLaunch:
				launched[e.Proc] = e
				if op, ok := oldV[e.Proc]; ok && e.Seq >= retSeq && e.Str == op.Tag && (newV[e.Proc] == nil || newV[e.Proc].Tag != op.Tag) {
					lateOldLaunch[e.Proc]++
				}
			case sim.EvSignal:
				signalled[e.Proc] = true
			}
		}
		// an old instance that had to go (changed or removed process) has
		// exited by the time the update request returns
		for n, op := range oldV {
			np, kept := newV[n]
			if op.Mode != "" || op.waits() || op.Disabled || op.Foreground || flex[n] {
				continue
			}
			if kept && !changed[np.Name] {
				continue
			}
			var lastLaunch, lastExit *sim.Event
			for k := range all[:nBefore] {
				if e := &all[k]; e.Proc == n && e.Kind == sim.EvLaunch {
					lastLaunch = e
				}
			}
			if lastLaunch == nil {
				continue
			}
			for k := range all {
				if e := &all[k]; e.Proc == n && e.Kind == sim.EvExit && e.Att == lastLaunch.Att && e.Seq < retSeq {
					lastExit = e
				}
			}
			r.Count("old_instances_checked", 1)
			if lastExit == nil {
				r.Add("C14", "old-instance-alive-after-update-returned", "update %d (%v): the old command of %s (attempt %d) had not exited when the update request returned", u, sp.Fields[u-1], n, lastLaunch.Att)
			}
		}
		if launched["anchor"] != nil || signalled["anchor"] {
			r.Add("C14", "unchanged-disturbed", "update %d: the untouched process 'anchor' was signalled or relaunched", u)
		}
		for n, np := range newV {
			op, existed := oldV[n]
			switch {
			case !existed:
				if !np.Disabled && !np.Foreground && !np.waits() && launched[n] == nil {
					r.Add("C14", "added-not-launched", "update %d: new process %s was not launched", u, n)
				}
				if np.Foreground && launched[n] != nil {
					r.Add("C14", "foreground-launched", "update %d: the added foreground process %s was launched automatically", u, n)
				}
			case flex[n] && !changed[n]:
				if launched[n] != nil || signalled[n] {
					r.Add("C14", "unchanged-disturbed", "update %d (%v): replica %s is not reported as updated but was signalled or relaunched", u, sp.Fields[u-1], n)
				}
			case changed[np.Name] || changed[n]:
				if !op.Disabled && !op.Foreground && op.Mode == "" && !op.waits() && !signalled[n] {
					r.Add("C14", "changed-not-stopped", "update %d (%v): %s changed but its old instance was not signalled", u, sp.Fields[u-1], n)
				}
				if !np.Disabled && !np.Foreground && !np.waits() && launched[n] == nil {
					r.Add("C14", "changed-not-relaunched", "update %d (%v): %s changed but no new instance was launched", u, sp.Fields[u-1], n)
				}
				if lateOldLaunch[n] > 0 {
					r.Add("C14", "old-instance-still-launching", "update %d (%v): the old instance of %s launched its old command %d more times after the update returned", u, sp.Fields[u-1], n, lateOldLaunch[n])
				}
			default:
				if np.Mode == "" && !np.waits() && (launched[n] != nil || signalled[n]) {
					r.Add("C14", "unchanged-disturbed", "update %d (%v): %s is unchanged but was %s", u, sp.Fields[u-1], n, map[bool]string{true: "relaunched", false: "signalled"}[launched[n] != nil])
				}
			}
			// the new launch uses the new configuration (only judged for launches of the new version)
			if e := launched[n]; e != nil && (changed[np.Name] || !existed) && e.Str == np.Tag || e != nil && !existed {
				wantExe := "bash"
				if np.Exe != "" {
					wantExe = np.Exe
				}
				if e.Str != np.Tag {
					r.Add("C14", "launch-old-args", "update %d: %s launched with argument version %q, new configuration has %q", u, n, e.Str, np.Tag)
				}
				if len(e.Argv) == 0 || e.Argv[0] != wantExe {
					r.Add("C14", "launch-old-executable", "update %d: %s launched with executable %q, new configuration has %q", u, n, e.Argv[0], wantExe)
				}
				if e.Dir != np.WorkingDir {
					r.Add("C14", "launch-old-dir", "update %d: %s launched in %q, new configuration has %q", u, n, e.Dir, np.WorkingDir)
				}
				eff := effectiveEnv(e.Env)
				for k, v := range envMap(np.Env) {
					if eff[k] != v {
						r.Add("C14", "launch-old-env", "update %d: %s launched with %s=%q, new configuration has %q", u, n, k, eff[k], v)
					}
				}
				for k := range envMap(op0(op).Env) {
					if _, still := envMap(np.Env)[k]; !still {
						if _, present := eff[k]; present {
							r.Add("C14", "launch-old-env", "update %d: %s launched with %s which the new configuration no longer defines", u, n, k)
						}
					}
				}
			} else if e != nil && changed[np.Name] && np.Mode == "" && e.Str != np.Tag {
				r.Add("C14", "launch-old-args", "update %d: %s launched with argument version %q, new configuration has %q", u, n, e.Str, np.Tag)
			}
			// stored configuration
			if info, err := env.Runner.GetProcessInfo(n); err != nil {
				r.Add("C14", "info-error", "update %d: GetProcessInfo(%s): %v", u, n, err)
			} else {
				want := prj.Processes[n]
				if canon(cfgView(info)) != canon(cfgView(&want)) {
					r.Add("C14", "stored-config", "update %d: stored configuration of %s differs from P'\n  runner: %s\n  P':     %s", u, n, canon(cfgView(info)), canon(cfgView(&want)))
				}
			}
		}
		for n, op := range oldV {
			if _, ok := newV[n]; ok {
				continue
			}
			if !op.Disabled && !op.Foreground && op.Mode == "" && !op.waits() && !signalled[n] {
				r.Add("C14", "removed-not-stopped", "update %d: removed process %s was not signalled", u, n)
			}
			if op.Mode == "" && !op.waits() && w.IsAlive(n) {
				r.Add("C14", "removed-still-alive", "update %d: removed process %s is still alive", u, n)
			}
			// a removed restarting process must not launch again after the update returned
			late := 0
			for k := range delta {
				if delta[k].Kind == sim.EvLaunch && delta[k].Proc == n && delta[k].Seq >= retSeq {
					late++
				}
			}
			if late > 0 {
				r.Add("C14", "removed-still-launching", "update %d: removed process %s launched its command %d more times after the update returned", u, n, late)
			}
		}
		if len(r.Findings) > 0 {
			break
		}
	}
	// a disabled process is not launched by the updates; started by hand
	// afterwards it runs the configuration of the last P'
	if len(r.Findings) == 0 && r.Inconclusive == "" {
		last := sp.Versions[len(sp.Versions)-1]
		for k := range last {
			np := &last[k]
			if !np.Disabled || np.Replicas > 1 || np.waits() || np.Mode != "" {
				continue
			}
			nb := len(w.Events())
			if err := env.Call("start", np.Name, 0, func() error { return env.Runner.StartProcess(np.Name) }); err != nil {
				r.Add("C14", "disabled-start-failed", "StartProcess(%s) (disabled in P') failed after the updates: %v", np.Name, err)
				continue
			}
			var le *sim.Event
			w.WaitFor(3*time.Second, func(v *sim.WorldView) bool {
				evs := v.Events()
				for i := nb; i < len(evs); i++ {
					if evs[i].Kind == sim.EvLaunch && evs[i].Proc == np.Name {
						e := evs[i]
						le = &e
						return true
					}
				}
				return false
			})
			r.Count("disabled_manual_starts", 1)
			if le == nil {
				r.Add("C14", "disabled-start-not-launched", "StartProcess(%s) returned nil but nothing was launched", np.Name)
				continue
			}
			wantExe := "bash"
			if np.Exe != "" {
				wantExe = np.Exe
			}
			eff := effectiveEnv(le.Env)
			bad := le.Str != np.Tag || len(le.Argv) == 0 || le.Argv[0] != wantExe || le.Dir != np.WorkingDir
			for k, v := range envMap(np.Env) {
				if eff[k] != v {
					bad = true
				}
			}
			if bad {
				r.Add("C14", "launch-old-config:disabled", "%s (disabled, changed by the updates %v) started by hand was launched with tag %q exe %q dir %q; the last P' has tag %q exe %q dir %q env %v", np.Name, sp.Fields, le.Str, le.Argv, le.Dir, np.Tag, wantExe, np.WorkingDir, np.Env)
			}
		}
	}
	sd := make(chan struct{})
	go func() {
		_ = env.Call("shutdown", "", 0, func() error { return env.Runner.ShutDownProject() })
		close(sd)
	}()
	select {
	case <-sd:
		if out := env.WaitRun(4*time.Second, 30*time.Second); out != sim.RunReturned {
			r.Count("run_not_returned_after_updates", 1)
			r.Dirty = true
		}
	case <-time.After(20 * time.Second):
		r.Add("C14", "shutdown-blocked-after-update", "ShutDownProject did not return after the updates (an instance that is no longer reachable keeps running)")
		r.Dirty = true
	}
	if len(r.Findings) > 0 {
		var wt []string
		for v := range sp.Versions {
			wt = append(wt, fmt.Sprintf("--- version %d ---", v))
			wt = append(wt, strings.Split(upYAML(sp.Versions[v], 0), "\n")...)
		}
		ev := sim.FormatEvents(w.Events())
		if len(ev) > 120 {
			ev = ev[len(ev)-120:]
		}
		r.Witness = append(wt, ev...)
	}
	r.NonTrivial = len(sp.Versions) > 1
	r.Sig = sim.Hash(fmt.Sprint(sp.Fields, len(sp.Versions[0]), sp.Versions[0]))
	if c.Idx < 2 {
		r.Sample = map[string]any{"mutations": sp.Fields}
	}
	return r
}

func aliveNamesView(v *sim.WorldView, w *sim.World) []string { return v.AliveNames() }

func op0(p *upProc) *upProc {
	if p == nil {
		return &upProc{}
	}
	return p
}

func init() {
	fw.Register(&fw.Property{
		ID: "C14", Level: "exploration",
		Rule:        "pairs and chains (1-3 successive updates) of generated projects of 2-5 long-running processes; P' differs from P by removed / added processes and by mutations of one or several launch-relevant fields (arguments, environment value / new entry, working dir, restart policy, back-off, probe, stop signal, dependencies, executable) - a quarter of the cases mutate exactly one field (field sensitivity) - or not at all; both projects go through the real loader; oracle: returned status map, configured set, stored configuration, and who was signalled / launched with which arguments, executable, directory and environment; distinct = mutation list",
		Assumptions: []string{"'changed' is decided by the mutator on the launch-relevant fields of the statement, independent of ProcessConfig.Compare", "description-only changes are not generated (the statement is silent)"},
		Gen: func(seed int64, tier string) []fw.Case {
			var cs []fw.Case
			for i := 0; i < tierN(tier, 5000, 60000); i++ {
				s := fw.SubSeed(seed, i)
				cs = append(cs, fw.MkCase("C14", "update-chain", s, genUpSpec(fw.Rand(s), i)))
			}
			return cs
		},
		Run:     runUpdate,
		Workers: func(string) int { return 16 },
	})
}
