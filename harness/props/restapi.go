package props

import (
	"bytes"
	"encoding/json"
	"fmt"
	"io"
	"math/rand"
	"net/http"
	"net/url"
	"sort"
	"strconv"
	"strings"
	"time"

	"github.com/f1bonacc1/process-compose/src/types"
	"github.com/gorilla/websocket"

	"pcverif/fw"
	"pcverif/sim"
)

// ------------------------------------------------------------------ C19

type raSpec struct {
	Seed  int64 `json:"seed"`
	N     int   `json:"n"`
	Steps int   `json:"steps"`
}

func normState(s types.ProcessState) types.ProcessState {
	s.Age, s.SystemTime, s.Mem, s.CPU = 0, "", 0, 0
	return s
}

func normStates(st *types.ProcessesState) string {
	if st == nil {
		return "nil"
	}
	var l []types.ProcessState
	for _, s := range st.States {
		l = append(l, normState(s))
	}
	sort.Slice(l, func(i, j int) bool { return l[i].Name < l[j].Name })
	return canon(l)
}

func normProject(p *types.ProjectState) string {
	if p == nil {
		return "nil"
	}
	q := *p
	q.UpTime = 0
	q.MemoryState = nil
	return canon(q)
}

// canonVia canonicalises a value through JSON (ints become float64 on the
// wire; the monitor does not demand more than "same value on the wire").
func canonVia(v any) string {
	b, err := json.Marshal(v)
	if err != nil {
		return "ERR:" + err.Error()
	}
	var x any
	if err := json.Unmarshal(b, &x); err != nil {
		return "ERR:" + err.Error()
	}
	return canon(x)
}

// runRestRead: at quiescent points every read operation through the client
// must agree with the direct call on the same runner.
func runRestRead(c fw.Case) fw.Result {
	var sp raSpec
	c.Params(&sp)
	r := fw.Result{NonTrivial: true}
	rng := rand.New(rand.NewSource(c.Seed))
	spec := LifeSpec{BackoffUnitMs: 20, LogLength: 200}
	for i := 0; i < sp.N; i++ {
		p := PSpec{Name: fmt.Sprintf("a%d", i), RunMs: []int{-1}, Out: []sim.Chunk{{Stream: "o", N: rng.Intn(40)}, {Stream: "e", N: rng.Intn(5)}}}
		switch rng.Intn(6) {
		case 0:
			p.RunMs = []int{1}
			p.Exits = []int{rng.Intn(3)}
		case 1:
			p.StartErr = []int{0}
		case 2:
			p.Disabled = true
		case 3:
			p.BadDir = true
		}
		if i > 0 && rng.Intn(3) == 0 && spec.Procs[0].Replicas <= 1 {
			p.Deps = []Dep{{On: "a0", Cond: types.ProcessConditionStarted}}
		}
		if rng.Intn(4) == 0 && len(p.Deps) == 0 {
			p.Replicas = 2
		}
		spec.Procs = append(spec.Procs, p)
	}
	w := sim.NewWorld(c.Seed)
	w.BackoffUnit = 20 * time.Millisecond
	w.NoOutEvents = true
	sim.SetCurrent(w)
	defer sim.Forget(w)
	env, err := sim.NewEnv(w, BuildYAML(&spec, w.ID, 1), sim.EnvOpts{})
	if err != nil {
		r.Inconclusive = err.Error()
		w.Close()
		return r
	}
	defer env.Cleanup()
	env.Start()
	api := startAPI(env)
	defer api.close()
	cl := api.client
	quiesce := func() {
		// pace only: wait until no event arrives for 15 ms (bounded)
		deadline := time.Now().Add(2 * time.Second)
		for time.Now().Before(deadline) && w.SilenceFor() < 15*time.Millisecond {
			time.Sleep(3 * time.Millisecond)
		}
	}
	names := func() []string {
		n, _ := env.Runner.GetLexicographicProcessNames()
		return append(n, "nosuch", "a0 ", "")
	}
	cmpErr := func(op, name string, de, ce error) bool {
		r.Count("read_ops_compared", 1)
		if (de != nil) != (ce != nil) {
			r.Add("C19", "client-error-mismatch:"+op, "%s(%q): direct call error=%v, client error=%v", op, name, de, ce)
			return false
		}
		return de == nil
	}
	// differs: the client's answer is compared with the direct answer taken
	// immediately before AND after it; only a client answer that differs from
	// two equal direct answers, four times in a row, counts (state changes
	// between two calls are not a disagreement)
	differs := func(direct func() string, client func() string) (bool, string, string) {
		var a, c string
		for try := 0; try < 4; try++ {
			a = direct()
			c = client()
			b := direct()
			if a != b {
				r.Count("unstable_reads", 1)
				quiesce()
				try--
				if r.Counters["unstable_reads"] > 200 {
					return false, a, c
				}
				continue
			}
			if c == a {
				return false, a, c
			}
			quiesce()
		}
		return true, a, c
	}
	mutate := []string{"stop", "start", "restart", "scale", "none", "none"}
	var prevProject *types.ProjectState
	prevProjectCanon := ""
	for step := 0; step < sp.Steps; step++ {
		quiesce()
		// --- compare every read operation
		ds, de := env.Runner.GetProcessesState()
		cs, ce := cl.GetProcessesState()
		if cmpErr("GetProcessesState", "", de, ce) && normStates(ds) != normStates(cs) {
			if bad, a, c := differs(func() string { x, _ := env.Runner.GetProcessesState(); return normStates(x) }, func() string { x, _ := cl.GetProcessesState(); return normStates(x) }); bad {
				r.Add("C19", "states-differ", "GetProcessesState: client %s, runner %s", c, a)
			}
		}
		for _, n := range names() {
			if n == "" {
				continue // empty path parameter is a different route
			}
			d1, e1 := env.Runner.GetProcessState(n)
			c1, e2 := cl.GetProcessState(n)
			if (e1 != nil) != (e2 != nil) {
				// a scale/update in flight may remove the name between the two calls
				quiesce()
				d1, e1 = env.Runner.GetProcessState(n)
				c1, e2 = cl.GetProcessState(n)
			}
			if cmpErr("GetProcessState", n, e1, e2) && canon(normState(*d1)) != canon(normState(*c1)) {
				one := func(get func(string) (*types.ProcessState, error)) func() string {
					return func() string {
						x, err := get(n)
						if err != nil || x == nil {
							return "error"
						}
						return canon(normState(*x))
					}
				}
				if bad, a, c := differs(one(env.Runner.GetProcessState), one(cl.GetProcessState)); bad {
					r.Add("C19", "state-differs", "GetProcessState(%s): client %s, runner %s", n, c, a)
				}
			}
			d2, e3 := env.Runner.GetProcessInfo(n)
			c2, e4 := cl.GetProcessInfo(n)
			if cmpErr("GetProcessInfo", n, e3, e4) && canonVia(d2) != canonVia(c2) {
				r.Add("C19", "info-differs", "GetProcessInfo(%s): client %s, runner %s", n, canonVia(c2), canonVia(d2))
			}
			// ports depend on "is it running right now": compare up to three times
			for try := 0; try < 3; try++ {
				d3, e5 := env.Runner.GetProcessPorts(n)
				c3, e6 := cl.GetProcessPorts(n)
				same := (e5 != nil) == (e6 != nil) && (e5 != nil || canonVia(d3) == canonVia(c3))
				if same {
					r.Count("read_ops_compared", 1)
					break
				}
				if try == 2 {
					if (e5 != nil) != (e6 != nil) {
						r.Add("C19", "client-error-mismatch:GetProcessPorts", "GetProcessPorts(%q): direct call error=%v, client error=%v (three attempts)", n, e5, e6)
					} else {
						r.Add("C19", "ports-differ", "GetProcessPorts(%s): client %s, runner %s", n, canonVia(c3), canonVia(d3))
					}
				}
				quiesce()
			}
			// raw log route vs direct
			off, lim := rng.Intn(30)-2, rng.Intn(12)-2
			dl, e7 := env.Runner.GetProcessLog(n, off, lim)
			status, body := rawReq(api, "GET", fmt.Sprintf("/process/logs/%s/%d/%d", n, off, lim), "")
			r.Count("read_ops_compared", 1)
			if e7 != nil {
				if status < 400 || status >= 500 {
					r.Add("C19", "logs-error-status", "GET logs of %q: status %d, the direct call fails with %v", n, status, e7)
				}
			} else {
				var got struct {
					Logs []string `json:"logs"`
				}
				_ = json.Unmarshal([]byte(body), &got)
				if status != 200 || !eqStrs(got.Logs, dl) {
					bad, _, _ := differs(func() string { x, _ := env.Runner.GetProcessLog(n, off, lim); return canon(append([]string{}, x...)) }, func() string {
						st, b := rawReq(api, "GET", fmt.Sprintf("/process/logs/%s/%d/%d", n, off, lim), "")
						var g struct {
							Logs []string `json:"logs"`
						}
						_ = json.Unmarshal([]byte(b), &g)
						if st != 200 {
							return fmt.Sprint("status ", st)
						}
						return canon(append([]string{}, g.Logs...))
					})
					if bad {
						r.Add("C19", "logs-differ", "GET /process/logs/%s/%d/%d: status %d, %d lines; direct call returns %d lines", n, off, lim, status, len(got.Logs), len(dl))
					}
				}
			}
		}
		withMem := step%2 == 1
		dp, e8 := env.Runner.GetProjectState(withMem)
		cp, e9 := cl.GetProjectState(withMem)
		if cmpErr("GetProjectState", "", e8, e9) {
			stillDiffers := false
			if normProject(dp) != normProject(cp) {
				var a, c string
				stillDiffers, a, c = differs(func() string { x, _ := env.Runner.GetProjectState(withMem); return normProject(x) }, func() string { x, _ := cl.GetProjectState(withMem); return normProject(x) })
				_, _ = a, c
			}
			if stillDiffers {
				r.Add("C19", "project-state-differs", "GetProjectState: client %s, runner %s", normProject(cp), normProject(dp))
			}
			if (dp.MemoryState != nil) != (cp.MemoryState != nil) {
				r.Add("C19", "project-state-memory", "GetProjectState(withMemory=%v): memory statistics present: runner %v, client %v", withMem, dp.MemoryState != nil, cp.MemoryState != nil)
			}
			// a value handed out earlier must not change under the caller
			if prevProject != nil && canon(prevProject) != prevProjectCanon {
				r.Add("C19", "client-result-mutated", "the project state returned by an earlier client call changed afterwards: %s -> %s", prevProjectCanon, canon(prevProject))
			}
			prevProject, prevProjectCanon = cp, canon(cp)
		}
		dh, _ := env.Runner.GetHostName()
		ch, e10 := cl.GetHostName()
		if e10 != nil || dh != ch {
			r.Add("C19", "hostname-differs", "GetHostName: client %q (%v), runner %q", ch, e10, dh)
		}
		dn, _ := env.Runner.GetLexicographicProcessNames()
		cn, e11 := cl.GetLexicographicProcessNames()
		if e11 != nil || !eqStrs(dn, cn) {
			r.Add("C19", "names-differ", "GetLexicographicProcessNames: client %v (%v), runner %v", cn, e11, dn)
		}
		if cl.IsAlive() != nil {
			r.Add("C19", "not-alive", "/live failed")
		}
		if len(r.Findings) > 0 {
			break
		}
		// --- a state-changing operation through the client, outcome vs reference
		cur, _ := env.Runner.GetLexicographicProcessNames()
		target := append(cur, "nosuch")[rng.Intn(len(cur)+1)]
		switch mutate[rng.Intn(len(mutate))] {
		case "stop":
			running := w.IsAlive(target)
			err := cl.StopProcess(target)
			if target == "nosuch" && err == nil {
				r.Add("C19", "stop-unknown-succeeded", "client StopProcess(nosuch) succeeded")
			}
			if running && err != nil && !strings.Contains(err.Error(), "no such process") {
				// a running process may finish on its own between the check and the call
				if w.IsAlive(target) {
					r.Add("C19", "stop-running-failed", "client StopProcess(%s) on a running process failed: %v", target, err)
				}
			}
		case "start":
			running := w.IsAlive(target)
			err := cl.StartProcess(target)
			if target == "nosuch" && err == nil {
				r.Add("C19", "start-unknown-succeeded", "client StartProcess(nosuch) succeeded")
			}
			if running && err == nil && w.IsAlive(target) {
				r.Add("C19", "start-on-active-succeeded", "client StartProcess(%s) succeeded although it is running", target)
			}
		case "restart":
			err := cl.RestartProcess(target)
			if target == "nosuch" && err == nil {
				r.Add("C19", "restart-unknown-succeeded", "client RestartProcess(nosuch) succeeded")
			}
		case "scale":
			n := []int{0, -1, 1, 2, 3}[rng.Intn(5)]
			err := cl.ScaleProcess(target, n)
			if (target == "nosuch" || n < 1) && err == nil {
				r.Add("C19", "scale-invalid-succeeded", "client ScaleProcess(%s,%d) succeeded", target, n)
			}
		}
	}
	_ = env.Runner.ShutDownProject()
	if env.WaitRun(4*time.Second, 30*time.Second) != sim.RunReturned {
		r.Dirty = true
	}
	r.Sig = sim.Hash(fmt.Sprint(c.Seed))
	if len(r.Findings) > 0 {
		r.Witness = strings.Split(BuildYAML(&spec, 0, 1), "\n")
	}
	return r
}

func rawReq(api *apiServer, method, path, body string) (int, string) {
	return rawReqCT(api, method, path, body, "application/json")
}

func rawReqCT(api *apiServer, method, path, body, ctype string) (int, string) {
	url := fmt.Sprintf("http://%s:%d%s", api.host, api.port, path)
	var rd io.Reader
	if body != "" {
		rd = bytes.NewBufferString(body)
	}
	req, err := http.NewRequest(method, url, rd)
	if err != nil {
		return -1, err.Error()
	}
	if body != "" && ctype != "" {
		req.Header.Set("Content-Type", ctype)
	}
	cl := &http.Client{Timeout: 10 * time.Second}
	resp, err := cl.Do(req)
	if err != nil {
		return -2, err.Error()
	}
	defer resp.Body.Close()
	b, _ := io.ReadAll(io.LimitReader(resp.Body, 1<<20))
	return resp.StatusCode, string(b)
}

// runRestHostile fires hostile requests at a disposable runner.
func runRestHostile(c fw.Case) fw.Result {
	var sp raSpec
	c.Params(&sp)
	r := fw.Result{NonTrivial: true}
	rng := rand.New(rand.NewSource(c.Seed))
	spec := LifeSpec{BackoffUnitMs: 20, LogLength: 50, Procs: []PSpec{
		{Name: "h0", RunMs: []int{-1}, Out: []sim.Chunk{{Stream: "o", N: 20}}},
		{Name: "h1", RunMs: []int{2}},
		{Name: "h2", RunMs: []int{-1}, Disabled: true},
	}}
	w := sim.NewWorld(c.Seed)
	w.BackoffUnit = 20 * time.Millisecond
	w.NoOutEvents = true
	sim.SetCurrent(w)
	defer sim.Forget(w)
	env, err := sim.NewEnv(w, BuildYAML(&spec, w.ID, 1), sim.EnvOpts{})
	if err != nil {
		r.Inconclusive = err.Error()
		w.Close()
		return r
	}
	defer env.Cleanup()
	env.Start()
	api := startAPI(env)
	defer api.close()
	names := []string{"h0", "h1", "h2", "nosuch", "%20", "h0%2F..%2Fh1", "a%00b", strings.Repeat("x", 9000), "ünï", "-1", ".", "..", "h0?x=1", "{{.X}}"}
	nums := []string{"0", "1", "5", "-1", "-99999", "abc", "", "99999999999999999999", "1e3", "2147483648", "0x10", " 1", "+3"}
	bodies := []string{"", "{", "null", "{}", "[]", "[1,2]", `["h0"`, `["h0","nosuch"]`, `{"processes": 5}`, `{"processes": {"h0": null}}`, `{"Name": 7}`, `{"ReplicaName":"h0","Replicas":-3}`,
		`{"processes":{"zz":{"command":"sim {\"w\":0}"}}}`, `"` + strings.Repeat("A", 1<<20) + `"`, `{"ReplicaName":"nosuch"}`, `[[]]`, `{"processes": []}`, "\x00\x01"}
	type route struct{ method, path string }
	pickRaw := func(l []string) string { return l[rng.Intn(len(l))] }
	// path parameters: percent-encode what would make the request line invalid
	// (space, control characters, non-ASCII); pre-encoded hostile values stay as they are
	pick := func(l []string) string {
		v := pickRaw(l)
		if strings.ContainsAny(v, " \x00{}") || !isASCII(v) {
			return url.PathEscape(v)
		}
		return v
	}
	shapes := map[string]int{}
	for i := 0; i < sp.Steps; i++ {
		var rt route
		body := ""
		badNum := false // a numeric path parameter that is not a number
		switch rng.Intn(16) {
		case 0:
			rt = route{"GET", "/process/" + pick(names)}
		case 1:
			rt = route{"GET", "/process/info/" + pick(names)}
		case 2:
			rt = route{"GET", "/process/ports/" + pick(names)}
		case 3:
			a, b := pick(nums), pick(nums)
			rt = route{"GET", "/process/logs/" + pick(names) + "/" + a + "/" + b}
			badNum = !isInt(a) || !isInt(b)
		case 4:
			rt = route{"PATCH", "/process/stop/" + pick(names)}
		case 5:
			rt, body = route{"PATCH", "/processes/stop"}, pickRaw(bodies)
		case 6:
			rt = route{"POST", "/process/start/" + pick(names)}
		case 7:
			rt = route{"POST", "/process/restart/" + pick(names)}
		case 8:
			// huge but well-formed replica counts are accepted by design (and
			// would create that many processes): not part of the hostile set
			n := pick(nums)
			if n == "2147483648" {
				n = "7"
			}
			rt = route{"PATCH", "/process/scale/" + pick(names) + "/" + n}
			badNum = !isInt(n)
		case 9:
			rt, body = route{"POST", "/process"}, pickRaw(bodies)
		case 10:
			rt, body = route{"POST", "/project"}, pickRaw(bodies)
		case 11:
			rt = route{"GET", "/project/state?withMemory=" + pick([]string{"true", "false", "maybe", ""})}
		case 12:
			rt = route{"GET", "/processes"}
		case 13:
			rt = route{"GET", "/process/logs/ws?name=" + url.QueryEscape(pick(names)) + "&offset=" + url.QueryEscape(pick(nums)) + "&follow=" + pick([]string{"true", "false", "x"})}
		case 14:
			rt = route{pick([]string{"DELETE", "PUT", "GET"}), "/process/start/" + pick(names)}
		case 15:
			rt = route{"GET", "/hostname"}
		}
		// the body is JSON whatever the client claims it to be
		ctype := []string{"application/json", "application/json", "", "text/plain", "application/x-www-form-urlencoded", "application/xml", "application/x-yaml", "multipart/form-data"}[rng.Intn(8)]
		status, resp := rawReqCT(api, rt.method, rt.path, body, ctype)
		r.Count("hostile_requests", 1)
		if badNum && status >= 200 && status < 300 {
			r.Add("C19", "invalid-parameter-accepted", "%s %s carries a non-numeric path parameter and was answered %d", rt.method, truncS(rt.path, 100), status)
		}
		if body != "" && !json.Valid([]byte(body)) && status >= 200 && status < 300 {
			r.Add("C19", "malformed-body-accepted", "%s %s with the malformed body %q (Content-Type %q) answered %d", rt.method, rt.path, truncS(body, 60), ctype, status)
		}
		shapes[fmt.Sprintf("%s %s -> %d", rt.method, strings.SplitN(strings.TrimPrefix(rt.path, "/"), "/", 3)[0], status/100)]++
		desc := fmt.Sprintf("%s %s body=%q", rt.method, truncS(rt.path, 80), truncS(body, 60))
		switch {
		case status < 0:
			r.Add("C19", "request-failed", "%s: transport error %s (server stopped serving?)", desc, truncS(resp, 200))
		case status >= 500:
			r.Add("C19", fmt.Sprintf("status-5xx:%s %s", rt.method, strings.SplitN(strings.TrimPrefix(rt.path, "/"), "/", 3)[0]), "%s answered %d: %s", desc, status, truncS(resp, 200))
		case status >= 400 && status != 404 && status != 405:
			var m map[string]any
			hasMsg := json.Unmarshal([]byte(resp), &m) == nil && m["error"] != nil && m["error"] != ""
			if !hasMsg && strings.Contains(resp, "\"error\":\"") {
				hasMsg = true // the websocket upgrader writes its own text before the JSON error
			}
			if !hasMsg {
				r.Add("C19", "4xx-without-error-message", "%s answered %d without an error message: %s", desc, status, truncS(resp, 200))
			}
		}
		if len(r.Findings) > 3 {
			break
		}
		if i%25 == 24 {
			if st, _ := rawReq(api, "GET", "/live", ""); st != 200 {
				r.Add("C19", "not-alive-after-hostile", "/live answered %d after %s", st, desc)
				break
			}
		}
	}
	if st, _ := rawReq(api, "GET", "/live", ""); st != 200 {
		r.Add("C19", "not-alive-after-hostile", "/live answered %d at the end", st)
	}
	if len(r.Findings) > 0 {
		// what gin's recovery middleware logged (panic value and stack)
		ge := ginErrors.String()
		if len(ge) > 6000 {
			ge = ge[:6000]
		}
		r.Witness = append(r.Witness, strings.Split(ge, "\n")...)
	}
	done := make(chan struct{})
	go func() { _ = env.Runner.ShutDownProject(); close(done) }()
	select {
	case <-done:
	case <-time.After(20 * time.Second):
		r.Dirty = true
	}
	if env.WaitRun(4*time.Second, 20*time.Second) != sim.RunReturned {
		r.Dirty = true
	}
	var sh []string
	for k := range shapes {
		sh = append(sh, k)
	}
	sort.Strings(sh)
	r.Sig = sim.Hash(strings.Join(sh, ";") + fmt.Sprint(c.Seed))
	if c.Idx%50 == 0 {
		r.Sample = shapes
	}
	return r
}

// isInt: what strconv.Atoi accepts (after the unescaping the router does)
func isInt(s string) bool {
	if u, err := url.PathUnescape(s); err == nil {
		s = u
	}
	_, err := strconv.Atoi(s)
	return err == nil
}

func isASCII(s string) bool {
	for i := 0; i < len(s); i++ {
		if s[i] >= 0x80 {
			return false
		}
	}
	return true
}

// runRestWsBroken: a log-stream client vanishes without a close handshake
// while the server is still writing its backlog; afterwards the log stream of
// another process must still be served and agree with the runner's log.
func runRestWsBroken(c fw.Case) fw.Result {
	r := fw.Result{NonTrivial: true}
	rng := rand.New(rand.NewSource(c.Seed))
	lines := 4000 + rng.Intn(4000)
	spec := LifeSpec{BackoffUnitMs: 20, NoOutEvents: true, LogLength: 10000, SilenceMs: 5000,
		Procs: []PSpec{
			{Name: "big", RunMs: []int{-1}, Out: []sim.Chunk{{Stream: "o", N: lines, Len: 600}}},
			{Name: "small", RunMs: []int{-1}, Out: []sim.Chunk{{Stream: "o", N: 3}}},
		}}
	w := sim.NewWorld(c.Seed)
	w.NoOutEvents = true
	sim.SetCurrent(w)
	defer sim.Forget(w)
	env, err := sim.NewEnv(w, BuildYAML(&spec, w.ID, 1), sim.EnvOpts{})
	if err != nil {
		r.Inconclusive = err.Error()
		w.Close()
		return r
	}
	defer env.Cleanup()
	env.Start()
	api := startAPI(env)
	defer api.close()
	// wait until the backlog is in the buffer
	deadline := time.Now().Add(10 * time.Second)
	for time.Now().Before(deadline) && env.Runner.GetProcessLogLength("big") < lines {
		time.Sleep(5 * time.Millisecond)
	}
	for k := 0; k < 1+rng.Intn(3); k++ {
		url := fmt.Sprintf("ws://%s:%d/process/logs/ws?name=big&offset=%d&follow=%v", api.host, api.port, lines, rng.Intn(2) == 0)
		conn, _, err := websocket.DefaultDialer.Dial(url, nil)
		if err != nil {
			r.Inconclusive = "dial: " + err.Error()
			return r
		}
		var m map[string]any
		_ = conn.ReadJSON(&m)
		_ = conn.UnderlyingConn().Close() // vanish without a close handshake
	}
	time.Sleep(50 * time.Millisecond)
	want, _ := env.Runner.GetProcessLog("small", 10, 0)
	var got wsCollector
	lc := newLogClient(api)
	done, err := lc.ReadProcessLogs("small", 10, false, got.add)
	if err != nil {
		r.Add("C19", "ws-not-served-after-broken-follower", "log stream request failed after a follower vanished: %v", err)
	} else {
		select {
		case <-done:
		case <-time.After(8 * time.Second):
		}
		if !eqStrs(got.snapshot(), want) {
			r.Add("C19", "ws-not-served-after-broken-follower", "after %s vanished mid-backlog, the log stream of 'small' delivered %v, the runner has %v", "a follower of 'big'", trunc(got.snapshot()), trunc(want))
		}
	}
	if st, _ := rawReq(api, "GET", "/live", ""); st != 200 {
		r.Add("C19", "not-alive-after-broken-follower", "/live answered %d", st)
	}
	sd := make(chan struct{})
	go func() { _ = env.Runner.ShutDownProject(); close(sd) }()
	select {
	case <-sd:
	case <-time.After(20 * time.Second):
		r.Dirty = true
	}
	r.Sig = sim.Hash(fmt.Sprint("wsbroken", c.Seed))
	return r
}

func truncS(s string, n int) string {
	if len(s) > n {
		return s[:n] + "…"
	}
	return s
}

func init() {
	fw.Register(&fw.Property{
		ID: "C19", Level: "exploration",
		Rule:        "(1) read operations: projects of 2-6 simulated processes in mixed states (running, completed, start failure, bad dir, disabled, replicas) behind the real router (api.InitRoutes) and the bundled client; at quiescent points every client read (process state(s), info, ports, project state, host name, names, raw log range) is compared with the direct call after canonicalisation, error iff error, interleaved with state-changing requests through the client whose outcome is compared with the reference; (2) the C08 / C13 / C14 history generators re-run with every request issued through the client, same oracles; (3) hostile requests: random route x hostile path parameters x malformed bodies against a disposable runner: no 5xx, 4xx carries an error message, /live keeps answering; distinct = request/route/status pattern",
		Assumptions: []string{"time-dependent fields (age, cpu, memory, uptime) are normalised", "values compared after a JSON round trip (ints become floats on the wire)", "PcClient.GetProcessLog is an explicit 'implement me' stub and is not called; the raw log route is compared instead"},
		Gen: func(seed int64, tier string) []fw.Case {
			var cs []fw.Case
			for i := 0; i < tierN(tier, 120, 1500); i++ {
				s := fw.SubSeed(seed, i)
				cs = append(cs, fw.MkCase("C19", "read-equivalence", s, raSpec{N: 2 + int(s%5), Steps: 4 + int(s%4)}))
			}
			for i := 0; i < tierN(tier, 60, 600); i++ {
				s := fw.SubSeed(seed, 10000+i)
				cs = append(cs, fw.MkCase("C19", "hostile", s, raSpec{Steps: 120}))
			}
			for i := 0; i < tierN(tier, 6, 60); i++ {
				cs = append(cs, fw.MkCase("C19", "ws-broken-follower", fw.SubSeed(seed, 15000+i), nil))
			}
			// the log stream of the bundled log client (websocket) against the
			// process' own output: same oracles as C18's followers
			for i, wc := range wsFollowCases(seed, tier) {
				if wc.Kind != "ws-reading" || i >= tierN(tier, 10, 60) {
					continue
				}
				wc.Prop, wc.Kind = "C19", "log-stream-via-client"
				cs = append(cs, wc)
			}
			// operations whose server side takes real seconds (restart with an
			// unscaled back-off of 6-8 s): the client must report the same outcome
			for i := 0; i < tierN(tier, 2, 12); i++ {
				spec := LifeSpec{BackoffUnitMs: 0, ViaClient: true, EndWithShutdown: true, SilenceMs: 12000,
					Procs: []PSpec{{Name: "sv", RunMs: []int{-1}, Backoff: 6 + i%3}},
					Ops:   []Op{{When: "launch:sv", Op: "restart", Proc: "sv"}}}
				cs = append(cs, fw.MkCase("C19", "slow-operation-via-client", fw.SubSeed(seed, 16000+i), spec))
			}
			for i := 0; i < tierN(tier, 250, 4000); i++ {
				s := fw.SubSeed(seed, 20000+i)
				spec := genManualCase(fw.Rand(s), i)
				spec.ViaClient = true
				cs = append(cs, fw.MkCase("C19", "history-via-client", s, spec))
			}
			for i := 0; i < tierN(tier, 150, 2000); i++ {
				s := fw.SubSeed(seed, 30000+i)
				sp := genScSpec(fw.Rand(s), i)
				sp.ViaClient = true
				cs = append(cs, fw.MkCase("C19", "scale-via-client", s, sp))
			}
			for i := 0; i < tierN(tier, 150, 2000); i++ {
				s := fw.SubSeed(seed, 40000+i)
				sp := genUpSpec(fw.Rand(s), i)
				sp.ViaClient = true
				cs = append(cs, fw.MkCase("C19", "update-via-client", s, sp))
			}
			return cs
		},
		Run: func(c fw.Case) fw.Result {
			var r fw.Result
			switch c.Kind {
			case "read-equivalence":
				return runRestRead(c)
			case "hostile":
				return runRestHostile(c)
			case "ws-broken-follower":
				return runRestWsBroken(c)
			case "slow-operation-via-client":
				var spec LifeSpec
				c.Params(&spec)
				lr := RunLife(c.Seed, &spec, nil)
				r = fw.Result{NonTrivial: true, Sig: sim.Hash(fmt.Sprint(spec.Procs[0].Backoff))}
				if lr.LoadErr != nil {
					r.Inconclusive = lr.LoadErr.Error()
					return r
				}
				ix := indexLife(lr.Events)
				pl := ix.procs["sv"]
				if !lr.OpDone[0] || pl == nil {
					r.Inconclusive = "the restart request was not issued"
					return r
				}
				// the direct call returns nil once the process has been started again
				if lr.OpErr[0] != "" {
					r.Add("C19", "client-error-on-slow-success", "RestartProcess(sv) of a running process through the client returned %q (back-off %d s): the direct call waits for the back-off and reports success", lr.OpErr[0], spec.Procs[0].Backoff)
					r.Witness = witness(lr, 200)
				}
				if lr.OpErr[0] == "" && len(pl.Launches) < 2 {
					r.Add("C19", "client-success-without-restart", "RestartProcess(sv) through the client returned nil but the process was not launched again")
					r.Witness = witness(lr, 200)
				}
				r.Count("slow_operations", 1)
				return r
			case "log-stream-via-client":
				r = runWsFollow(c)
			case "history-via-client":
				r = runGraphCase(c, everyOracle, func(lr *LifeRun, ix *lifeIndex) bool { return true }, lifeSigKinds)
			case "scale-via-client":
				r = runScale(c)
			case "update-via-client":
				r = runUpdate(c)
			}
			// the same oracles decide; their findings count for C19 in via-client mode
			for i := range r.Findings {
				r.Findings[i].Key = "via-client:" + r.Findings[i].Prop + ":" + r.Findings[i].Key
				r.Findings[i].Prop = "C19"
			}
			return r
		},
		Workers: func(string) int { return 16 },
	})
}
