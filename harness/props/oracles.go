package props

import (
	"fmt"
	"os"
	"sort"
	"strings"

	"github.com/f1bonacc1/process-compose/src/types"

	"pcverif/fw"
	"pcverif/sim"
)

// ------------------------------------------------------------------ helpers

func hasEventBefore(evs []sim.Event, seq int, pred func(e *sim.Event) bool) bool {
	for i := range evs {
		if evs[i].Seq >= seq {
			break
		}
		if pred(&evs[i]) {
			return true
		}
	}
	return false
}

func hasEventBetween(evs []sim.Event, lo, hi int, pred func(e *sim.Event) bool) bool {
	for i := range evs {
		if evs[i].Seq <= lo {
			continue
		}
		if evs[i].Seq >= hi {
			break
		}
		if pred(&evs[i]) {
			return true
		}
	}
	return false
}

func apiCallsFor(evs []sim.Event, proc string, ops ...string) []sim.Event {
	var out []sim.Event
	for _, e := range evs {
		if e.Kind != sim.EvApiCall {
			continue
		}
		if proc != "" && e.Proc != proc {
			continue
		}
		for _, o := range ops {
			if e.Str == o {
				out = append(out, e)
			}
		}
	}
	return out
}

func autoRun(spec *LifeSpec, name string) bool {
	p := spec.proc(name)
	if p == nil || p.Disabled {
		return false
	}
	if len(spec.ToRun) > 0 {
		return false // selections are handled by the C07 monitor
	}
	return true
}

// gateSatisfied reports whether the gate event for (D, cond) occurred before seq.
func gateSatisfied(ix *lifeIndex, d, cond string, seq int) bool {
	return gateSatisfiedSince(ix, d, cond, -1, seq)
}

// gateSatisfiedSince: the gate event occurred after lo and before seq (lo is
// the creation of the dependency instance that counts).
func gateSatisfiedSince(ix *lifeIndex, d, cond string, lo, seq int) bool {
	evs := ix.ev
	after := func(e *sim.Event) bool { return e.Seq > lo }
	switch cond {
	case types.ProcessConditionCompleted:
		if e := ix.stoppedBeforeLaunch(d); e != nil && e.Seq < seq && after(e) {
			return true
		}
		return ix.terminalBetween(d, lo, seq) != nil
	case types.ProcessConditionCompletedSuccessfully:
		p := ix.procs[d]
		if p == nil {
			return false
		}
		if e := ix.stoppedBeforeLaunch(d); e != nil && e.Seq < seq && e.Code == 0 && after(e) {
			return true
		}
		for i := range p.States {
			e := &p.States[i]
			// a command that could not be started did not complete successfully,
			// whatever exit code is reported with its Error status
			if e.Seq < seq && after(e) && isTerminal(e.Str) && e.Code == 0 && e.Str != types.ProcessStateError {
				return true
			}
		}
		return false
	case types.ProcessConditionHealthy:
		return hasEventBefore(evs, seq, func(e *sim.Event) bool { return after(e) && e.Kind == sim.EvProbe && e.Proc == d && e.Flag })
	case types.ProcessConditionLogReady:
		return hasEventBefore(evs, seq, func(e *sim.Event) bool { return after(e) && e.Kind == sim.EvOut && e.Proc == d && e.Flag })
	case types.ProcessConditionStarted, "":
		if hasEventBefore(evs, seq, func(e *sim.Event) bool {
			return after(e) && e.Kind == sim.EvYield && e.Str == "runner.released" && e.Proc == d
		}) {
			return true
		}
		if e := ix.stoppedBeforeLaunch(d); e != nil && e.Seq < seq && after(e) {
			return true
		}
		return ix.terminalBetween(d, lo, seq) != nil
	}
	return true
}

// apiCreated reports whether the instance created at instSeq was created by
// an API request (start / restart / scale / update) rather than by Run().
func (ix *lifeIndex) apiCreated(name string, instSeq int) bool {
	if instSeq < 0 {
		return false
	}
	for i := range ix.ev {
		e := &ix.ev[i]
		if e.Seq > instSeq {
			break
		}
		if e.Kind != sim.EvApiCall || (e.Proc != name && e.Proc != "") {
			continue
		}
		if e.Str != "start" && e.Str != "restart" && e.Str != "scale" && e.Str != "update" {
			continue
		}
		// find its return
		ret := -1
		for j := i + 1; j < len(ix.ev); j++ {
			if ix.ev[j].Kind == sim.EvApiRet && ix.ev[j].Att == e.Seq {
				ret = ix.ev[j].Seq
				break
			}
		}
		if ret < 0 || ret > instSeq {
			return true
		}
	}
	return false
}

// stoppedBeforeLaunch returns the Terminating status write of a process that
// was stopped before any command of it was launched (it is over: it will
// never run), nil otherwise.
func (ix *lifeIndex) stoppedBeforeLaunch(d string) *sim.Event {
	p := ix.procs[d]
	if p == nil || len(p.Instances) == 0 {
		return nil
	}
	// the first instance of d ended without ever launching a command
	first := p.Instances[0]
	end := -1
	for i := range p.States {
		e := &p.States[i]
		if e.Seq > first && (isTerminal(e.Str) || e.Str == types.ProcessStateTerminating) {
			end = e.Seq
			break
		}
	}
	if end < 0 {
		return nil
	}
	for _, l := range p.Launches {
		if l.Seq < end {
			return nil
		}
	}
	if e := ix.ev[end]; e.Str == types.ProcessStateSkipped || e.Str == types.ProcessStateError {
		return nil // skipped / failed to start: not a stop
	}
	// its waiters are released when the request that stops it cancels its
	// context - somewhere between the request being issued and its Completed
	// status being written. The request is the recorded cause.
	for i := range ix.ev {
		e := &ix.ev[i]
		if e.Seq <= first || e.Seq >= end {
			continue
		}
		if (e.Kind == sim.EvApiCall && ((e.Proc == d && (e.Str == "stop" || e.Str == "restart")) || e.Str == "shutdown" || e.Str == "update" || e.Str == "scale")) ||
			(e.Kind == sim.EvYield && e.Str == "shutdown.enter") {
			return e
		}
	}
	e := ix.ev[end]
	return &e
}

// ------------------------------------------------------------------ C01

// oracleGating: no launch before every dependency (scheduled to run) met its
// declared condition.
func oracleGating(lr *LifeRun, ix *lifeIndex, r *fw.Result) {
	spec := lr.Spec
	if spec.NoDeps {
		return
	}
	for i := range spec.Procs {
		x := &spec.Procs[i]
		pl := ix.procs[x.Name]
		if pl == nil {
			continue
		}
		for _, l := range pl.Launches {
			instSeq := -1
			for _, sq := range pl.Instances {
				if sq < l.Seq {
					instSeq = sq
				}
			}
			viaAPI := ix.apiCreated(x.Name, instSeq)
			for _, d := range x.Deps {
				dl := ix.procs[d.On]
				// automatic start-up: every enabled dependency is scheduled to
				// run; API-created instances: the dependency must have been
				// registered before the dependent's instance was created
				scheduled := !viaAPI && autoRun(spec, d.On)
				if !scheduled && dl != nil {
					for _, sq := range dl.Instances {
						if sq < instSeq {
							scheduled = true
						}
					}
				}
				if !scheduled {
					continue
				}
				r.Count("gated_launches_checked", 1)
				// an API-created instance waits for the dependency instance that
				// is current at that moment, not for a predecessor of it
				lo := -1
				if viaAPI && dl != nil {
					cur, later := -1, false
					for _, sq := range dl.Instances {
						if sq < instSeq {
							cur = sq
						} else if sq < l.Seq {
							later = true // replaced in between: which one counts is not determined
						}
					}
					if !later {
						lo = cur
					}
				}
				if lo >= 0 && !gateSatisfiedSince(ix, d.On, d.Cond, lo, l.Seq) && gateSatisfied(ix, d.On, d.Cond, l.Seq) {
					r.Add("C01", "gate-stale-instance:"+d.Cond, "%s (instance created at seq %d by a request) was launched (seq %d) on the strength of an earlier instance of its dependency %s; the instance current at that time (created at seq %d) had not met %s", x.Name, instSeq, l.Seq, d.On, lo, d.Cond)
					// and if that current instance then ended without meeting the
					// condition, the dependent should have been skipped (C05)
					if d.Cond == types.ProcessConditionCompletedSuccessfully {
						for k := range dl.States {
							if t := &dl.States[k]; t.Seq > lo && isTerminal(t.Str) && t.Code != 0 {
								r.Add("C05", "launched-after-unsatisfiable:stale-instance", "%s was launched (seq %d) although the instance of %s it had to wait for (created at seq %d) ended with exit code %d (seq %d)", x.Name, l.Seq, d.On, lo, t.Code, t.Seq)
								break
							}
						}
					}
					continue
				}
				if !gateSatisfied(ix, d.On, d.Cond, l.Seq) {
					r.Add("C01", "gate:"+d.Cond, "%s was launched (seq %d, attempt %d) before its dependency %s met %s", x.Name, l.Seq, l.Att, d.On, d.Cond)
				}
			}
		}
	}
}

// realWaits counts launches whose gate event came after the dependent's
// instance existed (the wait was real): the non-triviality rule of C01.
func realWaits(lr *LifeRun, ix *lifeIndex) int {
	n := 0
	for i := range lr.Spec.Procs {
		x := &lr.Spec.Procs[i]
		pl := ix.procs[x.Name]
		if pl == nil || len(pl.Instances) == 0 {
			continue
		}
		for _, l := range pl.Launches {
			inst := -1
			for _, s := range pl.Instances {
				if s < l.Seq {
					inst = s
				}
			}
			for _, d := range x.Deps {
				if inst >= 0 && !gateSatisfied(ix, d.On, d.Cond, inst) && gateSatisfied(ix, d.On, d.Cond, l.Seq) {
					n++
				}
			}
		}
	}
	return n
}

// ------------------------------------------------------------------ C05

// unsatisfiedAt: the dependency reached a terminal state (event t) with the
// gate for cond not met.
func unsatisfiedTerminal(ix *lifeIndex, d, cond string) *sim.Event {
	p := ix.procs[d]
	if p == nil {
		return nil
	}
	var t *sim.Event
	for i := range p.States {
		if isTerminal(p.States[i].Str) {
			t = &p.States[i]
		}
	}
	if sb := ix.stoppedBeforeLaunch(d); sb != nil {
		if cond == types.ProcessConditionCompletedSuccessfully {
			return nil // stopped before start: exit code 0, the statement is silent
		}
		t = sb
	}
	if t == nil {
		return nil
	}
	switch cond {
	case types.ProcessConditionCompletedSuccessfully:
		// a command that could not be started did not complete successfully,
		// whatever exit code is reported for it
		if t.Code != 0 || t.Str == types.ProcessStateError {
			return t
		}
		// ground truth: the last command of the dependency exited non-zero,
		// whatever exit code is reported with the terminal status
		var last *launchRec
		for _, l := range p.Launches {
			if !l.Failed && l.ExitSeq >= 0 && l.ExitSeq < t.Seq {
				last = l
			}
		}
		if last != nil && last.ExitCode != 0 {
			return t
		}
	case types.ProcessConditionHealthy, types.ProcessConditionLogReady:
		if !gateSatisfied(ix, d, cond, t.Seq) {
			return t
		}
	}
	return nil
}

func oracleSkip(lr *LifeRun, ix *lifeIndex, r *fw.Result) {
	spec := lr.Spec
	// a project that hangs with nothing alive is judged as well: its final
	// states are final (a dependent left Pending was not reported Skipped)
	if spec.NoDeps || (lr.Outcome != sim.RunReturned && lr.Outcome != sim.RunHang) {
		return
	}
	for i := range spec.Procs {
		x := &spec.Procs[i]
		if !autoRun(spec, x.Name) {
			continue
		}
		// API starts/restarts of the dependent or its dependencies make "the"
		// terminal state ambiguous: only single-instance histories are judged.
		pl := ix.procs[x.Name]
		if pl == nil || len(pl.Instances) != 1 {
			continue
		}
		for _, d := range x.Deps {
			dl := ix.procs[d.On]
			if dl != nil && len(dl.Instances) == 1 && ix.apiCreated(x.Name, pl.Instances[0]) && dl.Instances[0] > pl.Instances[0] {
				// the dependent was created by a request before its dependency
				// was registered: it does not wait for it (section 9, item 3)
				continue
			}
			if dl == nil || len(dl.Instances) != 1 || !autoRun(spec, d.On) {
				// (a disabled dependency is not waited for; started by hand later it is a different story)
				continue
			}
			t := unsatisfiedTerminal(ix, d.On, d.Cond)
			if t == nil {
				continue
			}
			r.Count("unsatisfiable_edges", 1)
			if len(pl.Launches) > 0 {
				// launched although the dependency ended unsatisfied; a launch
				// before t is impossible to justify as well (gate not met), that
				// case is C01's.
				for _, l := range pl.Launches {
					if l.Seq > t.Seq {
						r.Add("C05", "launched-after-unsatisfiable:"+d.Cond, "%s was launched (seq %d) although its dependency %s ended (%s, exit %d, seq %d) without meeting %s",
							x.Name, l.Seq, d.On, t.Str, t.Code, t.Seq, d.Cond)
					}
				}
				continue
			}
			// must be reported Skipped with non-zero exit code, unless a
			// stop/shutdown reached it first
			var skipped *sim.Event
			for k := range pl.States {
				if pl.States[k].Str == types.ProcessStateSkipped {
					skipped = &pl.States[k]
				}
			}
			stopped := len(apiCallsFor(ix.ev, x.Name, "stop")) > 0
			if skipped == nil {
				if len(ix.shutdownEnter) > 0 || stopped {
					continue
				}
				fs, ok := lr.Final[x.Name]
				st := "?"
				if ok {
					st = fs.Status
				}
				r.Add("C05", "not-skipped:"+d.Cond, "%s depends on %s (%s) which ended unsatisfied (%s exit %d) but %s was never reported Skipped (final status %s)", x.Name, d.On, d.Cond, t.Str, t.Code, x.Name, st)
				continue
			}
			if skipped.Code == 0 {
				r.Add("C05", "skipped-exit-zero", "%s is Skipped with exit code 0", x.Name)
			}
			if fs, ok := lr.Final[x.Name]; ok && len(ix.shutdownEnter) == 0 && !stopped {
				if fs.Status != types.ProcessStateSkipped || fs.ExitCode == 0 {
					r.Add("C05", "final-not-skipped", "%s final state is %s exit %d, expected Skipped with non-zero exit code", x.Name, fs.Status, fs.ExitCode)
				}
			}
			soleTrigger := len(ix.shutdownEnter) == 0 || ix.shutdownEnter[0] > skipped.Seq
			if x.ExitOnSkipped && lr.ExitCode == 0 && soleTrigger && lr.Outcome == sim.RunReturned {
				r.Add("C05", "exit-on-skipped-code", "%s has exit_on_skipped and was skipped but Run() reported success", x.Name)
			}
		}
	}
}

// ------------------------------------------------------------------ C04

func hangKey(lr *LifeRun) string {
	var parts []string
	for name, st := range lr.Final {
		if isTerminal(st.Status) || st.Status == types.ProcessStateDisabled || st.Status == types.ProcessStateForeground {
			continue
		}
		p := lr.Spec.proc(baseName(name))
		desc := st.Status
		if p != nil && st.Status == types.ProcessStatePending {
			var ds []string
			for _, d := range p.Deps {
				dst := "?"
				if f, ok := lr.Final[d.On]; ok {
					dst = f.Status
				}
				ds = append(ds, d.Cond+"->"+dst)
			}
			sort.Strings(ds)
			desc += "(" + strings.Join(ds, ",") + ")"
		}
		parts = append(parts, desc)
	}
	sort.Strings(parts)
	parts = dedup(parts)
	return "hang:" + strings.Join(parts, "+")
}

func dedup(s []string) []string {
	var out []string
	for i, v := range s {
		if i == 0 || v != s[i-1] {
			out = append(out, v)
		}
	}
	return out
}

func oracleCompletion(lr *LifeRun, ix *lifeIndex, r *fw.Result) {
	spec := lr.Spec
	// a shutdown command that fails is followed by SIGKILL: the process is
	// shut down one way or the other
	for i := range spec.Procs {
		p := &spec.Procs[i]
		if !(strings.HasPrefix(p.StopCmd, "exit ") && p.StopCmd != "exit 0") || p.Daemon {
			continue
		}
		pl := ix.procs[p.Name]
		if pl == nil {
			continue
		}
		for k := range pl.States {
			t := &pl.States[k]
			if t.Str != types.ProcessStateTerminating || !ix.aliveAt(p.Name, t.Seq) {
				continue
			}
			killed := false
			for _, e := range ix.ev {
				if e.Seq > t.Seq && e.Kind == sim.EvSignal && e.Proc == p.Name && e.Code == 9 {
					killed = true
				}
			}
			r.Count("failed_stop_commands_checked", 1)
			if !killed && (lr.Outcome == sim.RunReturned || lr.Outcome == sim.RunStalled || lr.Outcome == sim.RunHang) {
				r.Add("C04", "failed-shutdown-command-not-followed-by-kill", "%s was being stopped (Terminating, seq %d) through its shutdown command %q, which fails; no SIGKILL followed", p.Name, t.Seq, p.StopCmd)
			}
			break
		}
	}
	if lr.Outcome == sim.RunHang {
		r.Add("C04", hangKey(lr), "Run() did not return: no event for the silence bound while no command is alive and no request is pending; non-terminal: %s", hangKey(lr))
		return
	}
	if lr.Outcome == sim.RunStalled && len(ix.shutdownEnter) > 0 && len(apiCallsFor(ix.ev, "", "shutdown", "start", "restart", "scale", "update")) == 0 {
		// an exit_on_* trigger shut the project down (no API request involved)
		// and the shutdown call returned, yet a command is alive and nothing
		// will ever end it: "all other processes are shut down" is violated
		ret := -1
		for k := range ix.ev {
			if ix.ev[k].Kind == sim.EvYield && ix.ev[k].Str == "shutdown.return" {
				ret = ix.ev[k].Seq
				break
			}
		}
		if ret >= 0 {
			for _, n := range ix.names {
				if ix.aliveAt(n, len(ix.ev)+1) {
					r.Add("C04", "not-shut-down-after-trigger", "an exit_on_* trigger shut the project down (shutdown returned at seq %d) but a command of %s is still alive and Run() keeps waiting for it", ret, n)
				}
			}
		}
		return
	}
	if lr.Outcome != sim.RunReturned {
		return
	}
	// Run() must not return while a launched command is alive
	for _, n := range ix.names {
		if ix.aliveAt(n, ix.runRet) {
			r.Add("C04", "run-returned-while-alive", "Run() returned (seq %d) while a command of %s was still alive", ix.runRet, n)
		}
	}
	// exit code
	firstShutdown := -1
	if len(ix.shutdownEnter) > 0 {
		firstShutdown = ix.shutdownEnter[0]
	}
	apiShutdown := len(apiCallsFor(ix.ev, "", "shutdown")) > 0
	allowed := map[int]bool{}
	triggers := 0
	var desc []string
	for i := range spec.Procs {
		p := &spec.Procs[i]
		pl := ix.procs[p.Name]
		if pl == nil {
			continue
		}
		// final terminal state of every instance
		for k := range pl.States {
			t := &pl.States[k]
			if !isTerminal(t.Str) {
				continue
			}
			if t.Str == types.ProcessStateSkipped {
				if p.ExitOnSkipped {
					allowed[1] = true
					triggers++
					desc = append(desc, p.Name+":skipped")
				}
				continue
			}
			isTrig := p.ExitOnEnd || (p.Restart == types.RestartPolicyExitOnFailure && t.Code != 0)
			if !isTrig || (ix.runRet >= 0 && t.Seq > ix.runRet) {
				// (an instance started by a request may end after Run() returned)
				continue
			}
			// victim: its last command was killed by a signal sent after the
			// shutdown began
			victim := false
			var last *launchRec
			for _, l := range pl.Launches {
				if l.Seq < t.Seq {
					last = l
				}
			}
			if last != nil && last.ExitCause == "signal" && firstShutdown >= 0 && last.FirstSignalSeq > firstShutdown {
				victim = true
			}
			if last == nil && firstShutdown >= 0 && t.Seq > firstShutdown {
				victim = true // never launched, ended by the shutdown
				// ... unless a request of the user stopped it before the shutdown
				// began: its goroutine then reports the end (and triggers) at once,
				// while the Completed status is written by the request a little later
				if c := ix.stoppedBeforeLaunch(p.Name); c != nil && c.Kind == sim.EvApiCall && c.Proc == p.Name && c.Seq < firstShutdown {
					victim = false
				}
			}
			if victim {
				if apiShutdown {
					allowed[t.Code] = true // externally requested shutdown: statement is silent
				}
				continue
			}
			allowed[t.Code] = true
			triggers++
			desc = append(desc, fmt.Sprintf("%s:%s:%d", p.Name, t.Str, t.Code))
		}
	}
	if triggers == 0 {
		allowed[0] = true
	}
	r.Count("exit_code_triggers", triggers)
	if !allowed[lr.ExitCode] {
		var al []int
		for c := range allowed {
			al = append(al, c)
		}
		sort.Ints(al)
		key := "exit-code"
		if triggers == 0 {
			key = "exit-code-without-trigger"
		} else if lr.ExitCode == 0 {
			key = "exit-code-success-despite-trigger"
		}
		r.Add("C04", key, "Run() reported exit code %d; allowed %v (triggers: %v)", lr.ExitCode, al, desc)
	}
	// a trigger must have shut everything down: covered by run-returned-while-alive
}

// ------------------------------------------------------------------ C08 overlap

func oracleOverlap(lr *LifeRun, ix *lifeIndex, r *fw.Result) {
	for _, n := range ix.names {
		pl := ix.procs[n]
		for i, l := range pl.Launches {
			for _, o := range pl.Launches[:i] {
				if o.Failed {
					continue
				}
				if o.ExitSeq < 0 || o.ExitSeq > l.Seq {
					r.Add("C08", "overlap", "two commands of %s alive at once: attempt %d launched at seq %d while attempt %d (launched seq %d) had not exited", n, l.Att, l.Seq, o.Att, o.Seq)
				}
			}
		}
	}
}

// ------------------------------------------------------------------ C03

// oracleShutdown checks completeness at every return of ShutDownProject.
func oracleShutdown(lr *LifeRun, ix *lifeIndex, r *fw.Result) {
	var rets []int
	for _, e := range ix.ev {
		if e.Kind == sim.EvYield && e.Str == "shutdown.return" {
			rets = append(rets, e.Seq)
		}
	}
	if len(rets) == 0 {
		return
	}
	first := rets[0]
	r.Count("shutdown_returns", len(rets))
	for _, n := range ix.names {
		pl := ix.procs[n]
		for _, l := range pl.Launches {
			if l.Failed {
				continue
			}
			if l.Seq < first && (l.ExitSeq < 0 || l.ExitSeq > first) {
				r.Add("C03", "alive-after-shutdown", "command of %s (attempt %d, launched seq %d) still alive when ShutDownProject returned (seq %d)", n, l.Att, l.Seq, first)
			}
			if l.Seq > first {
				// allowed only for an instance created by an explicit request
				// (start / restart / scale / update) issued after the shutdown returned
				// (a request that overlaps the shutdown - its instance is created
				// after the shutdown began - is an explicit request as well; what
				// should happen to it is beyond the statement)
				is, ok := pl.InstSeq[l.Inst]
				if !(ok && is > ix.shutdownEnter[0] && ix.apiCreated(n, is)) {
					r.Add("C03", "launch-after-shutdown", "command of %s launched (seq %d) after ShutDownProject returned (seq %d) without a new start request", n, l.Seq, first)
				}
			}
		}
	}
	// every shutdown request, not only the first: what was launched before the
	// request must have exited when the request returns
	for i := range ix.ev {
		c := &ix.ev[i]
		if c.Kind != sim.EvApiCall || c.Str != "shutdown" {
			continue
		}
		ret := -1
		for j := i + 1; j < len(ix.ev); j++ {
			if ix.ev[j].Kind == sim.EvApiRet && ix.ev[j].Att == c.Seq && ix.ev[j].Str == "shutdown" {
				ret = ix.ev[j].Seq
				break
			}
		}
		if ret < 0 {
			continue
		}
		for _, n := range ix.names {
			for _, l := range ix.procs[n].Launches {
				if !l.Failed && l.Seq < c.Seq && (l.ExitSeq < 0 || l.ExitSeq > ret) {
					r.Add("C03", "alive-after-shutdown-request-returned", "command of %s (attempt %d, launched seq %d) was still alive when the shutdown request issued at seq %d returned (seq %d)", n, l.Att, l.Seq, c.Seq, ret)
				}
			}
		}
	}
	if lr.Outcome == sim.RunHang {
		r.Add("C03", "run-hang-after-shutdown:"+strings.TrimPrefix(hangKey(lr), "hang:"), "Run() did not return after the shutdown completed; non-terminal: %s", hangKey(lr))
	}
}

// oracleNoRunningAfterShutdown: states queried right after shutdown returned.
func oracleNoRunningAfter(states map[string]types.ProcessState, r *fw.Result) {
	for n, s := range states {
		if s.IsRunning {
			r.Add("C03", "reported-running-after-shutdown", "%s is reported running (status %s) after ShutDownProject returned", n, s.Status)
		}
	}
}

// ------------------------------------------------------------------ C12

func oracleOrdered(lr *LifeRun, ix *lifeIndex, r *fw.Result) {
	if !lr.Spec.Ordered || len(ix.shutdownEnter) == 0 {
		return
	}
	sd := ix.shutdownEnter[0]
	// a daemon dependent is alive until its shutdown command has finished
	// (ground truth: the time stamp the command leaves behind as its last act)
	for i := range lr.Spec.Procs {
		x := &lr.Spec.Procs[i]
		if !x.Daemon || x.StopMark == "" || lr.World == nil {
			continue
		}
		b, err := os.ReadFile(x.StopMark)
		_ = os.Remove(x.StopMark)
		if err != nil {
			continue
		}
		var doneWall int64
		fmt.Sscanf(strings.TrimSpace(string(b)), "%d", &doneWall)
		if doneWall == 0 {
			continue
		}
		for _, d := range x.Deps {
			for _, e := range ix.ev {
				if e.Kind != sim.EvSignal || e.Proc != d.On || e.Seq < sd {
					continue
				}
				r.Count("ordered_pairs_checked", 1)
				sigWall := lr.World.StartWall().UnixNano() + e.T
				if sigWall < doneWall {
					r.Add("C12", "dependency-signalled-before-dependent-exit", "%s received its stop signal %.1f ms before the shutdown command of its daemon dependent %s had finished", d.On, float64(doneWall-sigWall)/1e6, x.Name)
				}
				break
			}
		}
	}
	for i := range lr.Spec.Procs {
		x := &lr.Spec.Procs[i]
		for _, xname := range pspecNames(x) {
			if !ix.aliveAt(xname, sd) {
				continue
			}
			xl := ix.procs[xname]
			var xlaunch *launchRec
			for _, l := range xl.Launches {
				if !l.Failed && l.Seq < sd && (l.ExitSeq < 0 || l.ExitSeq > sd) {
					xlaunch = l
				}
			}
			if xlaunch == nil {
				continue
			}
			for _, d := range x.Deps {
				dspec := lr.Spec.proc(d.On)
				dnames := []string{d.On}
				if dspec != nil {
					dnames = pspecNames(dspec)
				}
				for _, dname := range dnames {
					dl := ix.procs[dname]
					if dl == nil {
						continue
					}
					for _, l := range dl.Launches {
						if l.FirstSignalSeq < sd {
							continue // not signalled by this shutdown
						}
						r.Count("ordered_pairs_checked", 1)
						if xlaunch.ExitSeq < 0 || xlaunch.ExitSeq > l.FirstSignalSeq {
							r.Add("C12", "dependency-signalled-before-dependent-exit", "%s received its stop signal (seq %d) while its dependent %s (alive when shutdown began at seq %d) had not exited", dname, l.FirstSignalSeq, xname, sd)
						}
					}
				}
			}
		}
	}
}
