package props

import (
	"fmt"
	"math/rand"
	"os"
	"regexp"
	"sort"
	"strings"
	"sync"
	"time"

	"github.com/f1bonacc1/process-compose/src/types"

	"pcverif/fw"
	"pcverif/sim"
)

// ------------------------------------------------------------------ C20

type rcSpec struct {
	Ops   []string `json:"ops"` // operations run concurrently, one goroutine each
	Iters int      `json:"iters"`
	Shape int      `json:"shape"`
}

var rcOps = []string{"states", "state", "project_state", "info", "names", "log", "subscribe", "ws_follow", "start", "stop", "stop_many", "restart", "scale", "update_project", "update_process", "log_length"}

func rcYAML(worldID int, shape int, version int) string {
	var b strings.Builder
	b.WriteString("version: \"0.5\"\nlog_length: 60\nenvironment:\n  - 'G1=one'\n  - 'G2=two'\nenv_cmds:\n  GCMD: 'echo x'\nprocesses:\n")
	w := func(name string, s sim.Script, extra string) {
		s.W = worldID
		fmt.Fprintf(&b, "  %s:\n    command: %s\n%s", name, yq(sim.FormatCommand(s, "")), extra)
	}
	// a restarting, logging process
	// (it also logs to a file: the asynchronous file logger is opened, written and closed at every restart)
	w("rs", sim.Script{Exits: []int{1}, RunMs: []int{1}, Out: []sim.Chunk{{Stream: "o", N: 50}, {Stream: "e", N: 10, When: "x"}}}, "    availability:\n      restart: always\n    environment:\n      - 'P=rs'\n    log_location: "+rcLogFile(worldID)+"\n")
	w("fl", sim.Script{RunMs: []int{2}, Out: []sim.Chunk{{Stream: "o", N: 30}, {Stream: "o", N: 120, When: "x"}}}, "    log_location: "+rcLogFile(worldID)+".fl\n    availability:\n      restart: always\n      max_restarts: 30\n")
	// long-running ones
	w("lr", sim.Script{RunMs: []int{-1}, Out: []sim.Chunk{{Stream: "o", N: 20}}, Tag: fmt.Sprint("v", version)}, "    environment:\n      - 'P=lr'\n")
	w("sc", sim.Script{RunMs: []int{-1}, Out: []sim.Chunk{{Stream: "o", N: 3}}}, "    environment:\n      - 'P=sc'\n")
	// fast exiting, with a dependent
	w("fx", sim.Script{RunMs: []int{2}, Exits: []int{0}}, "")
	w("dp", sim.Script{RunMs: []int{4}}, "    depends_on:\n      fx:\n        condition: process_completed\n")
	if shape%2 == 1 {
		w("ex", sim.Script{RunMs: []int{-1}}, "    environment:\n      - 'A=1'\n")
	}
	if version%2 == 1 {
		w("nw", sim.Script{RunMs: []int{-1}}, "")
	}
	return b.String()
}

func rcLogFile(worldID int) string {
	return fmt.Sprintf("%s/rc-%d-%d.log", sim.Scratch, os.Getpid(), worldID)
}

type nullObserver struct {
	id   string
	n    int
	mu   sync.Mutex
	tail int
}

func (o *nullObserver) WriteString(s string) (int, error) {
	o.mu.Lock()
	o.n++
	o.mu.Unlock()
	return len(s), nil
}
func (o *nullObserver) SetLines(l []string) { o.mu.Lock(); o.n += len(l); o.mu.Unlock() }
func (o *nullObserver) GetTailLength() int  { return o.tail }
func (o *nullObserver) GetUniqueID() string { return o.id }

func runRacePair(c fw.Case) fw.Result {
	var sp rcSpec
	c.Params(&sp)
	r := fw.Result{NonTrivial: true}
	w := sim.NewWorld(c.Seed)
	w.BackoffUnit = 5 * time.Millisecond
	w.NoOutEvents = true
	w.SetPerturb(300)
	sim.SetCurrent(w)
	defer sim.Forget(w)
	dir, err := os.MkdirTemp(sim.Scratch, "rc-")
	if err != nil {
		r.Inconclusive = err.Error()
		return r
	}
	defer os.RemoveAll(dir)
	defer os.Remove(rcLogFile(w.ID))
	defer os.Remove(rcLogFile(w.ID) + ".fl")
	env, err := sim.NewEnv(w, rcYAML(w.ID, sp.Shape, 0), sim.EnvOpts{})
	if err != nil {
		r.Inconclusive = err.Error()
		w.Close()
		return r
	}
	defer env.Cleanup()
	var versions []*types.Project
	for v := 0; v < 2; v++ {
		f, _ := sim.WriteTemp(dir, fmt.Sprintf("v%d.yaml", v), rcYAML(w.ID, sp.Shape, v))
		p, err := loadOnce([]string{f})
		if err != nil {
			r.Inconclusive = err.Error()
			return r
		}
		versions = append(versions, p)
	}
	env.Start()
	// API calls start only after Run() created the automatic instances
	w.WaitFor(3*time.Second, func(v *sim.WorldView) bool { return v.Instances("dp") >= 1 && v.Launches("lr") >= 1 })
	api := startAPI(env)
	defer api.close()
	run := env.Runner
	names := []string{"rs", "lr", "sc", "fx", "dp"}
	var wg sync.WaitGroup
	calls := 0
	var cmu sync.Mutex
	for gi, op := range sp.Ops {
		wg.Add(1)
		go func(gi int, op string) {
			defer wg.Done()
			rng := rand.New(rand.NewSource(c.Seed + int64(gi)*7919))
			obs := &nullObserver{id: fmt.Sprintf("o%d", gi), tail: 5}
			for i := 0; i < sp.Iters; i++ {
				n := names[rng.Intn(len(names))]
				switch op {
				case "states":
					_, _ = run.GetProcessesState()
				case "state":
					if st, err := run.GetProcessState(n); err == nil {
						_ = *st // the TUI copies the state it is handed
					}
				case "project_state":
					_, _ = run.GetProjectState(i%4 == 0)
				case "info":
					_, _ = run.GetProcessInfo(n)
				case "names":
					_, _ = run.GetLexicographicProcessNames()
				case "log":
					// like the TUI / REST handler: the returned lines are read after the call
					if rng.Intn(2) == 0 {
						n = "rs" // the process that logs all the time
					}
					if lines, err := run.GetProcessLog(n, rng.Intn(80), rng.Intn(40)); err == nil {
						time.Sleep(time.Duration(rng.Intn(6000)) * time.Microsecond)
						total := 0
						for _, l := range lines {
							total += len(l)
						}
						_ = total
					}
				case "log_length":
					_ = run.GetProcessLogLength(n)
				case "subscribe":
					if run.GetLogsAndSubscribe(n, obs) == nil {
						time.Sleep(time.Duration(rng.Intn(300)) * time.Microsecond)
						_ = run.UnSubscribeLogger(n, obs)
					}
				case "ws_follow":
					lc := newLogClient(api)
					if _, err := lc.ReadProcessLogs("rs", 3, true, func(_ logMsg) {}); err == nil {
						time.Sleep(time.Duration(rng.Intn(800)) * time.Microsecond)
						_ = lc.CloseChannel()
					}
				case "start":
					_ = run.StartProcess(n)
				case "stop":
					_ = run.StopProcess(n)
				case "stop_many":
					_, _ = run.StopProcesses([]string{n, names[rng.Intn(len(names))]})
				case "restart":
					_ = run.RestartProcess(n)
				case "scale":
					cur, _ := run.GetLexicographicProcessNames()
					target := "sc"
					for _, x := range cur {
						if strings.HasPrefix(x, "sc") {
							target = x
							break
						}
					}
					_ = run.ScaleProcess(target, 1+rng.Intn(3))
				case "update_project":
					_, _ = run.UpdateProject(cloneProject(versions[i%2]))
				case "update_process":
					if pc, err := run.GetProcessInfo("lr"); err == nil {
						cp := *pc
						cp.Description = fmt.Sprintf("d%d", i)
						_ = run.UpdateProcess(&cp)
					}
				}
				cmu.Lock()
				calls++
				cmu.Unlock()
				if rng.Intn(4) == 0 {
					time.Sleep(time.Duration(rng.Intn(200)) * time.Microsecond)
				}
			}
		}(gi, op)
	}
	done := make(chan struct{})
	go func() { wg.Wait(); close(done) }()
	select {
	case <-done:
	case <-time.After(45 * time.Second):
		r.Add("C20", "api-call-blocked", "concurrent API operations %v did not all return within 45 s (goroutine dump attached)", sp.Ops)
		r.Witness = filterDump(sim.GoroutineDump())
		r.Dirty = true
		return r
	}
	sd := make(chan struct{})
	go func() { _ = run.ShutDownProject(); close(sd) }()
	select {
	case <-sd:
	case <-time.After(30 * time.Second):
		r.Add("C20", "shutdown-blocked", "ShutDownProject after concurrent %v did not return within 30 s", sp.Ops)
		r.Witness = filterDump(sim.GoroutineDump())
		r.Dirty = true
		return r
	}
	if out := env.WaitRun(5*time.Second, 30*time.Second); out != sim.RunReturned {
		if out == sim.RunHang {
			r.Add("C20", "run-blocked", "Run() did not return after the concurrent operations %v and a completed shutdown", sp.Ops)
			r.Witness = filterDump(sim.GoroutineDump())
		}
		r.Dirty = true
	}
	r.Count("api_calls", calls)
	r.Sig = sim.Hash(strings.Join(sp.Ops, "+") + fmt.Sprint(sp.Shape))
	if c.Idx < 2 {
		r.Sample = map[string]any{"ops": sp.Ops, "iterations": sp.Iters, "api_calls": calls}
	}
	return r
}

// runRaceStartup: requests arrive while Run() is still inside its start-up
// loop over a large project (the first milliseconds).
func runRaceStartup(c fw.Case) fw.Result {
	var sp struct {
		N       int      `json:"n"`
		DelayUs int      `json:"delay_us"`
		Ops     []string `json:"ops"`
	}
	c.Params(&sp)
	r := fw.Result{NonTrivial: true}
	w := sim.NewWorld(c.Seed)
	w.BackoffUnit = 5 * time.Millisecond
	w.NoOutEvents = true
	sim.SetCurrent(w)
	defer sim.Forget(w)
	var b strings.Builder
	b.WriteString("version: \"0.5\"\nprocesses:\n")
	var names []string
	for i := 0; i < sp.N; i++ {
		n := fmt.Sprintf("s%03d", i)
		names = append(names, n)
		sc := sim.Script{W: w.ID, RunMs: []int{-1}}
		if i%3 == 0 {
			sc.RunMs = []int{1 + i%4}
		}
		fmt.Fprintf(&b, "  %s:\n    command: %s\n", n, yq(sim.FormatCommand(sc, "")))
		if i%7 == 6 {
			fmt.Fprintf(&b, "    depends_on:\n      %s:\n        condition: process_started\n", names[i-1])
		}
	}
	env, err := sim.NewEnv(w, b.String(), sim.EnvOpts{})
	if err != nil {
		r.Inconclusive = err.Error()
		w.Close()
		return r
	}
	defer env.Cleanup()
	run := env.Runner
	env.Start()
	var wg sync.WaitGroup
	for gi, op := range sp.Ops {
		wg.Add(1)
		go func(gi int, op string) {
			defer wg.Done()
			rng := rand.New(rand.NewSource(c.Seed + int64(gi)*104729))
			time.Sleep(time.Duration(sp.DelayUs+rng.Intn(300)) * time.Microsecond)
			switch op {
			case "shutdown":
				_ = run.ShutDownProject()
			case "states":
				for i := 0; i < 20; i++ {
					_, _ = run.GetProcessesState()
				}
			case "start":
				for i := 0; i < 10; i++ {
					_ = run.StartProcess(names[rng.Intn(len(names))])
				}
			case "stop":
				for i := 0; i < 10; i++ {
					_ = run.StopProcess(names[rng.Intn(len(names))])
				}
			case "scale":
				_ = run.ScaleProcess(names[rng.Intn(len(names))], 2)
			case "project_state":
				for i := 0; i < 10; i++ {
					_, _ = run.GetProjectState(false)
				}
			}
		}(gi, op)
	}
	done := make(chan struct{})
	go func() { wg.Wait(); close(done) }()
	select {
	case <-done:
	case <-time.After(40 * time.Second):
		r.Add("C20", "api-call-blocked", "requests %v issued %d us after Run() began on a project of %d processes did not all return within 40 s (goroutine dump attached)", sp.Ops, sp.DelayUs, sp.N)
		r.Witness = filterDump(sim.GoroutineDump())
		r.Dirty = true
		return r
	}
	sd := make(chan struct{})
	go func() { _ = run.ShutDownProject(); close(sd) }()
	select {
	case <-sd:
	case <-time.After(30 * time.Second):
		r.Add("C20", "shutdown-blocked", "ShutDownProject after start-up requests %v did not return within 30 s", sp.Ops)
		r.Witness = filterDump(sim.GoroutineDump())
		r.Dirty = true
		return r
	}
	if out := env.WaitRun(5*time.Second, 30*time.Second); out == sim.RunHang {
		r.Add("C20", "run-blocked", "Run() did not return after start-up requests %v and a completed shutdown", sp.Ops)
		r.Witness = filterDump(sim.GoroutineDump())
		r.Dirty = true
	} else if out != sim.RunReturned {
		r.Dirty = true
	}
	r.Count("startup_scenarios", 1)
	r.Sig = sim.Hash(strings.Join(sp.Ops, "+") + fmt.Sprint(sp.N, sp.DelayUs/200))
	return r
}

func cloneProject(p *types.Project) *types.Project {
	cp := *p
	cp.Processes = types.Processes{}
	for k, v := range p.Processes {
		cp.Processes[k] = v
	}
	return &cp
}

// ------------------------------------------------------------------ race report parsing

var raceFrameRe = regexp.MustCompile(`^\s+(github\.com/f1bonacc1/process-compose/src/[^\s(]+(?:\([^)]*\))?[^\s(]*)\(`)
var raceFuncRe = regexp.MustCompile(`^\s+([^\s]+)\(`)

// parseRaceLog splits a GORACE log into report blocks and extracts for each the
// sorted pair of innermost process-compose functions of the two accesses.
func parseRaceLog(text string) (pairs map[string]string, harnessOnly int) {
	pairs = map[string]string{}
	blocks := strings.Split(text, "WARNING: DATA RACE")
	for _, b := range blocks[1:] {
		if i := strings.Index(b, "=================="); i >= 0 {
			b = b[:i]
		}
		// sections separated by blank lines; the first two are the accesses
		secs := strings.Split(strings.TrimSpace(b), "\n\n")
		var fns []string
		for _, s := range secs {
			first := strings.SplitN(s, "\n", 2)[0]
			if !(strings.Contains(first, " by goroutine") || strings.Contains(first, "by main goroutine")) {
				continue
			}
			if strings.HasPrefix(strings.TrimSpace(first), "Goroutine") {
				continue
			}
			fn := ""
			for _, l := range strings.Split(s, "\n")[1:] {
				if m := raceFuncRe.FindStringSubmatch(l); m != nil && strings.Contains(m[1], "f1bonacc1/process-compose/src/") {
					fn = strings.TrimPrefix(m[1], "github.com/f1bonacc1/process-compose/src/")
					break
				}
			}
			fns = append(fns, fn)
			if len(fns) == 2 {
				break
			}
		}
		if len(fns) < 2 || (fns[0] == "" && fns[1] == "") {
			harnessOnly++
			continue
		}
		for i := range fns {
			if fns[i] == "" {
				fns[i] = "(outside process-compose)"
			}
			// closures: strip the numeric suffixes so line shifts do not matter
			fns[i] = regexp.MustCompile(`\.func\d+(\.\d+)*$`).ReplaceAllString(fns[i], ".func")
		}
		sort.Strings(fns)
		key := fns[0] + " | " + fns[1]
		if _, ok := pairs[key]; !ok {
			if len(b) > 3000 {
				b = b[:3000]
			}
			pairs[key] = b
		}
	}
	return
}

func init() {
	fw.RaceHook = func(p *fw.Property, logs []string, ev *fw.Evidence) []fw.Finding {
		all := map[string]string{}
		harness := 0
		reports := 0
		for _, l := range logs {
			reports += strings.Count(l, "WARNING: DATA RACE")
			ps, h := parseRaceLog(l)
			harness += h
			for k, v := range ps {
				if _, ok := all[k]; !ok {
					all[k] = v
				}
			}
		}
		keys := []string{}
		for k := range all {
			keys = append(keys, k)
		}
		sort.Strings(keys)
		if ev.Coverage == nil {
			ev.Coverage = map[string]any{}
		}
		ev.Coverage["race_reports"] = reports
		ev.Coverage["race_pairs"] = keys
		ev.Coverage["race_reports_outside_process_compose"] = harness
		var out []fw.Finding
		for _, k := range keys {
			out = append(out, fw.Finding{Prop: "C20", Key: "race:" + k, Text: "data race between " + k + "\n" + all[k]})
		}
		if harness > 0 {
			out = append(out, fw.Finding{Prop: "C20", Key: "race:harness-only", Text: fmt.Sprintf("%d race reports with no process-compose frame in either access (harness problem)", harness)})
		}
		return out
	}

	fw.Register(&fw.Property{
		ID: "C20", Level: "exploration", Race: true,
		Rule:        "race-detector build (-race) of the harness; for every unordered pair of the 16 API operations (and seeded triples) both run in tight loops for a fixed number of iterations against a project whose simulated processes are exiting, restarting, logging, pending on dependencies and being scaled/updated, yield points in perturbation mode; oracles: race reports de-duplicated by the sorted pair of innermost process-compose functions, runtime fatal errors / panics, per-scenario watchdog for calls that never return; distinct = operation set x project shape",
		Assumptions: []string{"API calls start after Run() created the automatic instances", "race reports are probabilistic: the pair list is what these runs observed"},
		Gen: func(seed int64, tier string) []fw.Case {
			var cs []fw.Case
			reps := tierN(tier, 4, 16)
			iters := tierN(tier, 40, 60)
			k := 0
			for rep := 0; rep < reps; rep++ {
				for i := 0; i < len(rcOps); i++ {
					for j := i; j < len(rcOps); j++ {
						cs = append(cs, fw.MkCase("C20", "pair", fw.SubSeed(seed, k), rcSpec{Ops: []string{rcOps[i], rcOps[j]}, Iters: iters, Shape: k % 3}))
						k++
					}
				}
			}
			rng := fw.Rand(seed)
			for t := 0; t < tierN(tier, 100, 800); t++ {
				ops := []string{rcOps[rng.Intn(len(rcOps))], rcOps[rng.Intn(len(rcOps))], rcOps[rng.Intn(len(rcOps))]}
				cs = append(cs, fw.MkCase("C20", "triple", fw.SubSeed(seed, 100000+t), rcSpec{Ops: ops, Iters: iters, Shape: t % 3}))
			}
			// requests during the first milliseconds of Run() on large projects
			sops := []string{"shutdown", "states", "start", "stop", "scale", "project_state"}
			for t := 0; t < tierN(tier, 120, 1200); t++ {
				ops := []string{"shutdown", sops[rng.Intn(len(sops))], sops[rng.Intn(len(sops))]}
				if t%4 == 3 {
					ops[0] = sops[1+rng.Intn(len(sops)-1)]
				}
				cs = append(cs, fw.MkCase("C20", "startup", fw.SubSeed(seed, 200000+t), map[string]any{"n": 60 + rng.Intn(120), "delay_us": rng.Intn(2500), "ops": ops}))
			}
			return cs
		},
		Run: func(c fw.Case) fw.Result {
			if c.Kind == "startup" {
				return runRaceStartup(c)
			}
			return runRacePair(c)
		},
		Workers:        func(string) int { return 16 },
		PerCaseTimeout: 150 * time.Second,
		WatchdogFinding: func(dump string) *fw.Finding {
			return &fw.Finding{Prop: "C20", Key: "case-watchdog", Text: "the scenario did not finish within its time limit: some call blocked forever (dump in witness)"}
		},
	})
}
