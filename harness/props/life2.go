package props

import (
	"fmt"
	"math/rand"

	"github.com/f1bonacc1/process-compose/src/types"

	"pcverif/fw"
	"pcverif/sim"
)

func everyOracle(lr *LifeRun, ix *lifeIndex, r *fw.Result) {
	allLifeOracles(lr, ix, r)
	oracleRestart(lr, ix, r)
	oracleManual(lr, ix, r)
	oracleState(lr, ix, r)
	if lr.Outcome == sim.RunReturned && lr.Settled && len(ix.shutdownEnter) > 0 && len(apiCallsFor(ix.ev, "", "start", "restart")) == 0 {
		oracleNoRunningAfter(lr.Final, r)
	}
}

var lifeSigKinds = []string{sim.EvLaunch, sim.EvExit, sim.EvState, sim.EvProbe, sim.EvGate, sim.EvSignal, sim.EvApiCall, sim.EvYield}

// ------------------------------------------------------------------ C02 gen

func genRestartCase(rng *rand.Rand, i int) LifeSpec {
	spec := LifeSpec{BackoffUnitMs: 20, AutoSched: true}
	policies := []string{"always", "on_failure", "no", "exit_on_failure", ""}
	p := PSpec{Name: "r0"}
	p.Restart = policies[i%len(policies)]
	p.MaxRestarts = []int{0, 1, 2, 5}[(i/5)%4]
	p.Backoff = []int{0, 1, 2, -3}[(i/20)%4]
	n := 1 + rng.Intn(6)
	for k := 0; k < n; k++ {
		p.Exits = append(p.Exits, []int{0, 1, 2, -1, 255}[rng.Intn(5)])
	}
	// make the sequence finite
	if p.Restart == "always" && p.MaxRestarts == 0 {
		p.MaxRestarts = 1 + rng.Intn(4)
	}
	if p.Restart == "on_failure" && p.MaxRestarts == 0 {
		p.Exits = append(p.Exits, 0)
	}
	p.RunMs = []int{rng.Intn(4)}
	if rng.Intn(12) == 0 {
		p.StartErr = []int{1 + rng.Intn(3)}
	}
	spec.Procs = []PSpec{p}
	if rng.Intn(3) == 0 {
		spec.Procs = append(spec.Procs, PSpec{Name: "by", RunMs: []int{rng.Intn(10)}})
	}
	if rng.Intn(3) == 0 {
		spec.PerturbUs = 100 + rng.Intn(1000)
	}
	return spec
}

// genRestartStopCase: a stop/shutdown lands at a chosen instant of a
// restarting process.
func genRestartStopCase(rng *rand.Rand, i int) LifeSpec {
	spec := LifeSpec{BackoffUnitMs: 20, AutoSched: false}
	p := PSpec{Name: "r0", Restart: []string{"always", "on_failure"}[rng.Intn(2)], Exits: []int{1 + rng.Intn(3)}, MaxRestarts: []int{0, 0, 4}[rng.Intn(3)]}
	p.Backoff = []int{0, 1, 2}[rng.Intn(3)]
	k := 1 + rng.Intn(3) // attempt at which the stop arrives
	stopOp := []string{"stop", "shutdown"}[rng.Intn(2)]
	mode := i % 6
	by := PSpec{Name: "by", RunMs: []int{-1}}
	switch mode {
	case 0: // while running attempt k
		p.RunMs = []int{2, 2, 2}
		p.RunMs[k-1] = -1
		spec.Ops = []Op{{When: fmt.Sprintf("launch:r0:%d", k), Op: stopOp, Proc: "r0"}}
	case 1: // exactly at exit: held after Wait()
		p.RunMs = []int{2}
		spec.Holds = []sim.Hold{{Point: "run.afterWait", Name: "r0", Nth: k, MaxMs: 200, Tag: "h"}}
		spec.Ops = []Op{{When: "hold:h", Op: stopOp, Proc: "r0", Release: []string{"h"}}}
	case 2: // during the back-off wait
		p.RunMs = []int{1}
		p.Backoff = 2
		spec.Ops = []Op{{When: fmt.Sprintf("exit:r0:%d", k), Op: "sleep", N: 5 + rng.Intn(20)}, {When: "now", Op: stopOp, Proc: "r0"}}
	case 3: // back-off timer fired, not yet relaunched
		p.RunMs = []int{1}
		spec.Holds = []sim.Hold{{Point: "run.afterBackoff", Name: "r0", Nth: k, MaxMs: 200, Tag: "h"}}
		spec.Ops = []Op{{When: "hold:h", Op: stopOp, Proc: "r0", Release: []string{"h"}}}
	case 4: // just before the launch decision
		p.RunMs = []int{1}
		spec.Holds = []sim.Hold{{Point: "run.beforeLaunch", Name: "r0", Nth: k + 1, MaxMs: 200, Tag: "h"}}
		spec.Ops = []Op{{When: "hold:h", Op: stopOp, Proc: "r0", Release: []string{"h"}}}
	case 5: // random instant
		p.RunMs = []int{rng.Intn(5)}
		spec.Ops = []Op{{When: fmt.Sprintf("t:%d", rng.Intn(120)), Op: stopOp, Proc: "r0"}}
	}
	spec.Procs = []PSpec{p, by}
	spec.EndWithShutdown = true
	return spec
}

// genRestartSlowShutdown: a restartable process whose command exits on its
// own while a slow project shutdown is under way (its turn has not come yet).
func genRestartSlowShutdown(rng *rand.Rand, i int) LifeSpec {
	spec := LifeSpec{BackoffUnitMs: 20, Ordered: i%3 != 0}
	r0 := PSpec{Name: "r0", Restart: []string{"always", "on_failure"}[rng.Intn(2)], Exits: []int{1 + rng.Intn(2)}, RunMs: []int{-1}}
	// dependents are stopped first under ordered shutdown; they are slow to die
	d1 := PSpec{Name: "d1", RunMs: []int{-1}, Sig: &sim.SigSpec{Ms: 60 + rng.Intn(60)}, Deps: []Dep{{On: "r0", Cond: types.ProcessConditionStarted}}}
	d2 := PSpec{Name: "d2", RunMs: []int{-1}, Sig: &sim.SigSpec{Ms: 40 + rng.Intn(80)}, Deps: []Dep{{On: "r0", Cond: types.ProcessConditionStarted}}}
	spec.Procs = []PSpec{r0, d1, d2}
	// the shutdown is requested while r0 runs; r0's command exits by itself a
	// little later, while the dependents are still dying
	spec.Ops = []Op{
		{When: "launch:d2", Op: "sleep", N: 5},
		{When: "now", Op: "shutdown", Async: true},
		{When: "now", Op: "sleep", N: 10 + rng.Intn(25)},
		{When: "now", Op: "release", Proc: "r0"},
	}
	spec.SilenceMs = 4000
	return spec
}

// genRestartProbeCase: the command never exits by itself; every attempt is
// ended by the supervisor because its first readiness probe fails
// (failure_threshold 1). The relaunch decision is the same table.
func genRestartProbeCase(rng *rand.Rand, i int) LifeSpec {
	spec := LifeSpec{BackoffUnitMs: 20, SilenceMs: 8000}
	code := []int{-1, 2, 0, 143}[i%4]
	p := PSpec{Name: "r0", RunMs: []int{-1}, Probe: true, ProbeFail: 1, Exits: []int{code}, Sig: &sim.SigSpec{Ms: rng.Intn(4), Code: &code}}
	p.Restart = []string{"always", "on_failure", "no", ""}[(i/4)%4]
	p.MaxRestarts = 1 + rng.Intn(2)
	for k := 0; k < 8; k++ {
		p.ProbeSeq = append(p.ProbeSeq, 0)
	}
	spec.Procs = []PSpec{p}
	return spec
}

// ------------------------------------------------------------------ C03 gen

var c03Points = []string{"Run.loop", "runner.spawned", "runner.released", "run.enter", "run.afterTermCheck", "run.beforeLaunch",
	"run.afterWait", "run.afterBackoff", "run.end", "runner.afterRun", "stop.afterCancel", "stop.afterCheck", "running", "pending"}

// genShutdownCase enumerates (injection point x trigger x shape x ordered).
func genShutdownCase(rng *rand.Rand, i int) (LifeSpec, string) {
	point := c03Points[i%len(c03Points)]
	trigger := []string{"api", "exit_on_failure", "exit_on_end", "exit_on_skipped"}[(i/len(c03Points))%4]
	shape := []string{"chain", "fan", "diamond", "independent"}[(i/(len(c03Points)*4))%4]
	ordered := (i/(len(c03Points)*16))%2 == 1
	spec := LifeSpec{BackoffUnitMs: 20, Ordered: ordered}
	cond := conds[rng.Intn(len(conds))]
	if cond == types.ProcessConditionHealthy {
		cond = types.ProcessConditionStarted
	}
	mk := func(name string) PSpec {
		return PSpec{Name: name, RunMs: []int{-1}, Sig: &sim.SigSpec{Ms: rng.Intn(8)}}
	}
	a, b, c, t := mk("a"), mk("b"), mk("c"), mk("t")
	if cond == types.ProcessConditionLogReady {
		a.ReadyLine = "a-ready"
		b.ReadyLine = "b-ready"
		t.ReadyLine = "t-ready"
	}
	dep := func(on string) Dep {
		cd := cond
		if cd == types.ProcessConditionCompleted || cd == types.ProcessConditionCompletedSuccessfully {
			cd = types.ProcessConditionStarted
		}
		return Dep{On: on, Cond: cd}
	}
	switch shape {
	case "chain":
		b.Deps = []Dep{dep("a")}
		t.Deps = []Dep{dep("b")}
		c.Deps = []Dep{dep("t")}
	case "fan":
		b.Deps = []Dep{dep("a")}
		t.Deps = []Dep{dep("a")}
		c.Deps = []Dep{dep("a")}
	case "diamond":
		b.Deps = []Dep{dep("a")}
		t.Deps = []Dep{dep("a")}
		c.Deps = []Dep{dep("b"), dep("t")}
	}
	// the ready lines are printed at once so the graph comes up
	spec.Ops = append(spec.Ops, Op{When: "now", Op: "ready", Proc: "a"}, Op{When: "now", Op: "ready", Proc: "b"}, Op{When: "now", Op: "ready", Proc: "t"})
	trig := PSpec{Name: "x", RunMs: []int{-1}, Exits: []int{3}}
	slowLoop := false
	hold := sim.Hold{Point: point, Name: "t", MaxMs: 250, Tag: "h"}
	when := "hold:h"
	switch point {
	case "running":
		hold = sim.Hold{}
		when = "launch:t"
	case "pending":
		// t waits for a dependency that only ends with the shutdown
		hold = sim.Hold{}
		t.Deps = []Dep{{On: "a", Cond: []string{types.ProcessConditionCompleted, types.ProcessConditionCompletedSuccessfully, types.ProcessConditionLogReady}[rng.Intn(3)]}}
		if t.Deps[0].Cond == types.ProcessConditionLogReady {
			a.ReadyLine = "never-printed"
			spec.Ops = nil
		}
		when = "launch:a"
	case "run.afterTermCheck":
		if rng.Intn(2) == 0 {
			t.BadDir = true // its validation will fail after the stop has ended it
		}
	case "run.beforeLaunch":
		if rng.Intn(3) == 0 {
			t.StartErr = []int{0} // its start will fail after the stop has ended it
		}
	case "run.afterWait", "run.end", "runner.afterRun":
		t.RunMs = []int{3}
	case "run.afterBackoff":
		t.RunMs = []int{2}
		t.Exits = []int{1}
		t.Restart = "always"
	case "stop.afterCancel", "stop.afterCheck":
		// a concurrent StopProcess(t) is held inside stopProcess
		spec.Ops = append(spec.Ops, Op{When: "launch:t", Op: "stop", Proc: "t", Async: true})
	case "Run.loop":
		hold.Name = []string{"b", "t", "c", "x"}[rng.Intn(4)]
		if rng.Intn(2) == 0 {
			// the hold ends while the shutdown is still busy stopping the
			// processes launched by earlier iterations (slow to die)
			slowLoop = true
			hold.MaxMs = 10 + rng.Intn(20)
			for _, q := range []*PSpec{&a, &b, &c, &t} {
				q.Sig = &sim.SigSpec{Ms: 60 + rng.Intn(60)}
			}
		}
	}
	switch trigger {
	case "api":
		rel := []string{"h"}
		if slowLoop {
			rel = nil
		}
		spec.Ops = append(spec.Ops, Op{When: when, Op: "shutdown", Release: rel})
	case "exit_on_failure":
		trig.Restart = "exit_on_failure"
		spec.Ops = append(spec.Ops, Op{When: when, Op: "release", Proc: "x"})
	case "exit_on_end":
		trig.ExitOnEnd = true
		trig.Exits = []int{0}
		spec.Ops = append(spec.Ops, Op{When: when, Op: "release", Proc: "x"})
	case "exit_on_skipped":
		// x2 is skipped when x fails
		trig.Exits = []int{2}
		spec.Procs = append(spec.Procs, PSpec{Name: "x2", RunMs: []int{-1}, ExitOnSkipped: true, Deps: []Dep{{On: "x", Cond: types.ProcessConditionCompletedSuccessfully}}})
		spec.Ops = append(spec.Ops, Op{When: when, Op: "release", Proc: "x"})
	}
	if hold.Point != "" {
		spec.Holds = []sim.Hold{hold}
	}
	spec.Procs = append([]PSpec{a, b, t, c, trig}, spec.Procs...)
	if point == "Run.loop" && hold.Name == "x" {
		// x is last in the run order only if nothing else follows: fine either way
	}
	spec.SilenceMs = 4000
	return spec, fmt.Sprintf("%s/%s/%s/ordered=%v", point, trigger, shape, ordered)
}

// genShutdownRepeated: overlapping shutdown requests against slow-dying
// processes, and shutdown -> explicit start -> shutdown again.
func genShutdownRepeated(rng *rand.Rand, i int) LifeSpec {
	spec := LifeSpec{BackoffUnitMs: 20, Ordered: rng.Intn(2) == 0}
	n := 2 + rng.Intn(3)
	for k := 0; k < n; k++ {
		p := PSpec{Name: fmt.Sprintf("s%d", k), RunMs: []int{-1}, Sig: &sim.SigSpec{Ms: 20 + rng.Intn(80)}}
		if k > 0 && rng.Intn(2) == 0 {
			p.Deps = []Dep{{On: "s0", Cond: types.ProcessConditionStarted}}
		}
		spec.Procs = append(spec.Procs, p)
	}
	last := fmt.Sprintf("s%d", n-1)
	if i%2 == 0 {
		// two (or three) overlapping requests
		spec.Ops = []Op{{When: "launch:" + last, Op: "sleep", N: 3}, {When: "now", Op: "shutdown", Async: true}, {When: "now", Op: "sleep", N: 1 + rng.Intn(15)}, {When: "now", Op: "shutdown", Async: rng.Intn(2) == 0}, {When: "now", Op: "sleep", N: rng.Intn(10)}, {When: "now", Op: "shutdown"}}
	} else {
		// shutdown, explicit start, shutdown again
		t := fmt.Sprintf("s%d", rng.Intn(n))
		spec.Ops = []Op{{When: "launch:" + last, Op: "shutdown"}, {When: "now", Op: "start", Proc: t}, {When: "launch:" + t + ":2", Op: "sleep", N: rng.Intn(10)}, {When: "now", Op: "shutdown"}}
	}
	spec.SilenceMs = 4000
	return spec
}

// genShutdownRandom: random graph, shutdown at a random instant.
func genShutdownRandom(rng *rand.Rand) LifeSpec {
	spec := genGraph(rng, graphOpts{MaxN: 6, Restarts: true})
	spec.Ordered = rng.Intn(2) == 0
	for i := range spec.Procs {
		if rng.Intn(3) == 0 {
			spec.Procs[i].Sig = &sim.SigSpec{Ms: rng.Intn(15)}
		}
		if rng.Intn(2) == 0 && spec.Procs[i].Restart == "" {
			spec.Procs[i].Restart = "always"
			spec.Procs[i].Exits = []int{rng.Intn(2)}
			spec.Procs[i].RunMs = []int{rng.Intn(6)}
		}
	}
	if rng.Intn(4) == 0 {
		// a daemon whose shutdown command succeeds, fails or is slow
		spec.Procs = append(spec.Procs, PSpec{Name: "dm", Daemon: true, RunMs: []int{0}, StopCmd: []string{"true", "exit 1", "sleep 0.05", "sleep 0.05; exit 3"}[rng.Intn(4)]})
	}
	spec.AutoSched = rng.Intn(2) == 0
	spec.PerturbUs = rng.Intn(1500)
	trig := []string{"shutdown", "shutdown", "shutdown"}[rng.Intn(3)]
	spec.Ops = append(spec.Ops, Op{When: fmt.Sprintf("t:%d", rng.Intn(60)), Op: trig})
	spec.SilenceMs = 4000
	return spec
}

// ------------------------------------------------------------------ C08 gen

func genManualCase(rng *rand.Rand, i int) LifeSpec {
	spec := LifeSpec{BackoffUnitMs: 20, Ordered: i%5 == 3}
	if i%20 == 7 {
		// a real command that cannot be started (no such executable): requests
		// arrive between the failed start and the Error report
		spec.Procs = []PSpec{{Name: "mx", RealExe: "/nonexistent/pcverif-no-such-exe"}, {Name: "mz", RunMs: []int{-1}}}
		spec.Holds = []sim.Hold{{Point: "run.startFailed", Name: "mx", Nth: 1, MaxMs: 150, Tag: "h"}}
		op := []string{"stop", "restart", "stop"}[rng.Intn(3)]
		spec.Ops = []Op{{When: "hold:h", Op: op, Proc: "mx", Release: []string{"h"}}}
		for s := 0; s < rng.Intn(5); s++ {
			spec.Ops = append(spec.Ops, Op{When: fmt.Sprintf("pause:%d", rng.Intn(20)), Op: []string{"start", "stop", "restart"}[rng.Intn(3)], Proc: "mx"})
		}
		spec.EndWithShutdown = true
		spec.SilenceMs = 4000
		return spec
	}
	if i%10 == 9 {
		// a replicated process: requests address single replicas, the first ones
		// arrive while Run() has not reached that replica yet
		n := 2 + rng.Intn(2)
		spec.Procs = []PSpec{{Name: "mr", Replicas: n, RunMs: []int{-1}, Sig: &sim.SigSpec{Ms: rng.Intn(10)}}, {Name: "mz", RunMs: []int{-1}}}
		t := fmt.Sprintf("mr-%d", rng.Intn(n))
		spec.Holds = []sim.Hold{{Point: "Run.loop", Name: []string{t, "mr-0", "mz"}[rng.Intn(3)], Nth: 1, MaxMs: 100, Tag: "h"}}
		spec.Ops = []Op{{When: "hold:h", Op: "start", Proc: t, Release: []string{"h"}}}
		for s := 0; s < 2+rng.Intn(6); s++ {
			spec.Ops = append(spec.Ops, Op{When: fmt.Sprintf("pause:%d", rng.Intn(25)), Op: []string{"start", "stop", "restart"}[rng.Intn(3)], Proc: fmt.Sprintf("mr-%d", rng.Intn(n))})
		}
		spec.EndWithShutdown = true
		spec.SilenceMs = 4000
		return spec
	}
	n := 1 + rng.Intn(3)
	for k := 0; k < n; k++ {
		p := PSpec{Name: fmt.Sprintf("m%d", k), RunMs: []int{-1}}
		switch rng.Intn(5) {
		case 0: // fast exit
			p.RunMs = []int{rng.Intn(6)}
			p.Exits = []int{rng.Intn(2)}
		case 1: // slow reaction to the stop signal (longer than the back-off)
			p.Sig = &sim.SigSpec{Ms: 25 + rng.Intn(40)}
			if rng.Intn(2) == 0 {
				p.StopTimeout = 1 + rng.Intn(3) // a SIGKILL escalation is configured (never needed)
			}
		case 2: // restarting
			p.RunMs = []int{rng.Intn(5)}
			p.Exits = []int{1}
			p.Restart = "always"
		case 3:
			p.Sig = &sim.SigSpec{Ms: rng.Intn(10)}
		}
		if k > 0 && rng.Intn(4) == 0 {
			p.Deps = []Dep{{On: "m0", Cond: []string{types.ProcessConditionCompleted, types.ProcessConditionStarted}[rng.Intn(2)]}}
		}
		if rng.Intn(6) == 0 {
			p.Disabled = true
		}
		spec.Procs = append(spec.Procs, p)
	}
	names := []string{}
	for _, p := range spec.Procs {
		names = append(names, p.Name)
	}
	names = append(names, "nosuch")
	concurrent := i%3 == 0
	steps := 3 + rng.Intn(12)
	for s := 0; s < steps; s++ {
		target := names[rng.Intn(len(names))]
		op := []string{"start", "stop", "restart", "start", "stop"}[rng.Intn(5)]
		o := Op{When: fmt.Sprintf("pause:%d", rng.Intn(25)), Op: op, Proc: target}
		if concurrent && rng.Intn(2) == 0 {
			// burst of k identical or mixed requests released together
			k := 2 + rng.Intn(3)
			for q := 0; q < k; q++ {
				oo := o
				oo.Async = true
				if q > 0 {
					oo.When = "now"
					if rng.Intn(3) == 0 {
						oo.Op = []string{"start", "stop", "restart"}[rng.Intn(3)]
					}
				}
				spec.Ops = append(spec.Ops, oo)
			}
			continue
		}
		spec.Ops = append(spec.Ops, o)
	}
	if i%4 == 0 {
		pts := []string{"start.afterCheck", "restart.afterStop", "runner.afterRun", "run.beforeLaunch", "stop.afterCancel"}
		spec.Holds = []sim.Hold{{Point: pts[rng.Intn(len(pts))], Name: "", Nth: 1 + rng.Intn(3), MaxMs: 60, Tag: "h"}}
	}
	if i%20 == 13 {
		// requests served before Run() is called (the API is up first)
		for _, p := range spec.Procs {
			if rng.Intn(2) == 0 {
				spec.PreRunStart = append(spec.PreRunStart, p.Name)
			}
		}
	}
	spec.PerturbUs = rng.Intn(800)
	spec.EndWithShutdown = true
	spec.SilenceMs = 4000
	return spec
}

// ------------------------------------------------------------------ C12 gen

func genOrderedCase(rng *rand.Rand, i int) LifeSpec {
	spec := LifeSpec{BackoffUnitMs: 20, Ordered: true}
	n := 3 + rng.Intn(6)
	shape := i % 7
	if shape == 5 {
		// o0 completes, its dependents (process_completed[_successfully]) start,
		// o0 is started again by hand, then the ordered shutdown begins: o0 must
		// outlive its running dependents
		n = 2 + rng.Intn(3)
		spec.Procs = append(spec.Procs, PSpec{Name: "o0", RunMs: []int{1 + rng.Intn(3), -1}, Exits: []int{0}, Sig: &sim.SigSpec{Ms: rng.Intn(20)}})
		for k := 1; k < n; k++ {
			c := []string{types.ProcessConditionCompleted, types.ProcessConditionCompletedSuccessfully}[rng.Intn(2)]
			spec.Procs = append(spec.Procs, PSpec{Name: fmt.Sprintf("o%d", k), RunMs: []int{-1}, Sig: &sim.SigSpec{Ms: 30 + rng.Intn(70)}, Deps: []Dep{{On: "o0", Cond: c}}})
		}
		spec.Ops = []Op{{When: fmt.Sprintf("launch:o%d", n-1), Op: "start", Proc: "o0"}, {When: "launch:o0:2", Op: "sleep", N: 1 + rng.Intn(8)}, {When: "now", Op: "shutdown"}}
		spec.SilenceMs = 4000
		return spec
	}
	if i%9 == 4 {
		// a daemon dependent whose shutdown command takes a while
		mark := fmt.Sprintf("/dev/shm/pcverif-c12-%d.mark", rng.Int63())
		spec.Procs = []PSpec{
			{Name: "o0", RunMs: []int{-1}, Sig: &sim.SigSpec{Ms: rng.Intn(10)}},
			{Name: "d1", Daemon: true, RunMs: []int{0}, Deps: []Dep{{On: "o0", Cond: types.ProcessConditionStarted}}, StopMark: mark,
				StopCmd: fmt.Sprintf("sleep 0.%02d; date +%%s%%N > %s", 8+rng.Intn(20), mark)},
		}
		spec.Ops = []Op{{When: "launch:d1", Op: "sleep", N: 10 + rng.Intn(20)}, {When: "now", Op: "shutdown"}}
		spec.SilenceMs = 4000
		return spec
	}
	if i%9 == 8 {
		// a replicated dependent whose replicas take different times to die
		spec.Procs = []PSpec{
			{Name: "o0", RunMs: []int{-1}, Sig: &sim.SigSpec{Ms: rng.Intn(10)}},
			{Name: "o1", RunMs: []int{-1}, Replicas: 2 + rng.Intn(3), Sig: &sim.SigSpec{Ms: 5 + rng.Intn(20), Step: 25 + rng.Intn(30)}, Deps: []Dep{{On: "o0", Cond: types.ProcessConditionStarted}}},
		}
		if rng.Intn(2) == 0 {
			spec.Procs = append(spec.Procs, PSpec{Name: "o2", RunMs: []int{-1}, Sig: &sim.SigSpec{Ms: rng.Intn(30)}, Deps: []Dep{{On: "o0", Cond: types.ProcessConditionStarted}}})
		}
		spec.Ops = []Op{{When: fmt.Sprintf("t:%d", 10+rng.Intn(20)), Op: "shutdown"}}
		spec.SilenceMs = 4000
		return spec
	}
	gshape := shape
	if shape == 6 {
		gshape = []int{0, 1, 3}[rng.Intn(3)]
	}
	for k := 0; k < n; k++ {
		p := PSpec{Name: fmt.Sprintf("o%d", k), RunMs: []int{-1}, Sig: &sim.SigSpec{Ms: rng.Intn(80)}}
		switch gshape {
		case 0: // chain
			if k > 0 {
				p.Deps = []Dep{{On: fmt.Sprintf("o%d", k-1), Cond: types.ProcessConditionStarted}}
			}
		case 1: // fan-in: everybody depends on o0
			if k > 0 {
				p.Deps = []Dep{{On: "o0", Cond: types.ProcessConditionStarted}}
			}
		case 2: // fan-out: o_last depends on all
			if k == n-1 {
				for j := 0; j < k; j++ {
					p.Deps = append(p.Deps, Dep{On: fmt.Sprintf("o%d", j), Cond: types.ProcessConditionStarted})
				}
			}
		case 3: // diamond-ish / layered
			for j := 0; j < k; j++ {
				if rng.Intn(3) == 0 {
					p.Deps = append(p.Deps, Dep{On: fmt.Sprintf("o%d", j), Cond: types.ProcessConditionStarted})
				}
			}
		case 4: // random with other conditions
			for j := 0; j < k; j++ {
				if rng.Intn(3) == 0 {
					c := []string{types.ProcessConditionStarted, types.ProcessConditionLogReady, types.ProcessConditionCompleted}[rng.Intn(3)]
					if c == types.ProcessConditionLogReady {
						spec.Procs[j].ReadyLine = fmt.Sprintf("o%d-up", j)
						spec.Ops = append(spec.Ops, Op{When: "now", Op: "ready", Proc: spec.Procs[j].Name})
					}
					p.Deps = append(p.Deps, Dep{On: fmt.Sprintf("o%d", j), Cond: c})
				}
			}
		}
		// some already exited at shutdown
		if rng.Intn(6) == 0 {
			p.RunMs = []int{rng.Intn(5)}
		}
		spec.Procs = append(spec.Procs, p)
	}
	if shape == 6 {
		// fault: the signal call of one dependent reports an error (EPERM) while
		// the command stays alive for a while; its dependencies still have to wait
		for k := n - 1; k > 0; k-- {
			if len(spec.Procs[k].Deps) > 0 && spec.Procs[k].RunMs[0] < 0 {
				spec.Procs[k].Sig = &sim.SigSpec{Mode: "eperm", Ms: 40 + rng.Intn(60)}
				break
			}
		}
	}
	at := 10 + rng.Intn(30)
	if i%4 == 1 && n > 1 {
		// a dependent is already being stopped (and is slow to die) when the
		// ordered shutdown begins
		for k := n - 1; k > 0; k-- {
			if len(spec.Procs[k].Deps) > 0 && spec.Procs[k].RunMs[0] < 0 {
				spec.Procs[k].Sig = &sim.SigSpec{Ms: 60 + rng.Intn(60)}
				spec.Ops = append(spec.Ops, Op{When: fmt.Sprintf("t:%d", at-3-rng.Intn(5)), Op: "stop", Proc: spec.Procs[k].Name, Async: true})
				break
			}
		}
	}
	spec.Ops = append(spec.Ops, Op{When: fmt.Sprintf("t:%d", at), Op: "shutdown"})
	spec.SilenceMs = 4000
	return spec
}

// ------------------------------------------------------------------ registration

func lifeRun(nontrivial func(lr *LifeRun, ix *lifeIndex) bool) func(c fw.Case) fw.Result {
	return func(c fw.Case) fw.Result {
		return runGraphCase(c, everyOracle, nontrivial, lifeSigKinds)
	}
}

func init() {
	fw.Register(&fw.Property{
		ID: "C02", Level: "exploration",
		Rule:        "grid policy x max_restarts x backoff x random exit-code sequences (reference decision table gives the exact launch count), plus stop/shutdown requests placed while running attempt k, exactly at exit (held after Wait), during the back-off, after the back-off timer fired (held), just before the launch decision, and at random instants; unscaled canaries keep the real 1 s back-off monitored; non-trivial = at least one relaunch or one stop of a restarting process; distinct = event-order signature",
		Assumptions: []string{"back-off scaled to 20 ms per second through the verif hook except in canary cases", "back-off checked as a lower bound on the monotonic clock"},
		Gen: func(seed int64, tier string) []fw.Case {
			var cs []fw.Case
			n := tierN(tier, 4800, 80000)
			for i := 0; i < n; i++ {
				s := fw.SubSeed(seed, i)
				rng := fw.Rand(s)
				if i%3 == 2 {
					cs = append(cs, fw.MkCase("C02", "restart-stop", s, genRestartStopCase(rng, i/3)))
				} else if i%12 == 1 {
					cs = append(cs, fw.MkCase("C02", "restart-slow-shutdown", s, genRestartSlowShutdown(rng, i/12)))
				} else if i%100 == 4 {
					cs = append(cs, fw.MkCase("C02", "restart-probe-stop", s, genRestartProbeCase(rng, i/100)))
				} else {
					cs = append(cs, fw.MkCase("C02", "restart-grid", s, genRestartCase(rng, i)))
				}
			}
			// unscaled canaries: real seconds
			nc := tierN(tier, 8, 32)
			for i := 0; i < nc; i++ {
				s := fw.SubSeed(seed, 1000000+i)
				spec := LifeSpec{BackoffUnitMs: 0, AutoSched: true, Procs: []PSpec{{Name: "r0", Restart: "on_failure", Exits: []int{1, 0}, RunMs: []int{1}, Backoff: []int{0, 1, -2, 2}[i%4]}}}
				cs = append(cs, fw.MkCase("C02", "canary-unscaled", s, spec))
			}
			return cs
		},
		Run: lifeRun(func(lr *LifeRun, ix *lifeIndex) bool {
			pl := ix.procs["r0"]
			return pl != nil && (len(pl.Launches) > 1 || len(apiCallsFor(ix.ev, "", "stop", "shutdown")) > 0)
		}),
		Workers: func(string) int { return 32 },
	})

	fw.Register(&fw.Property{
		ID: "C03", Level: "fault_enumeration",
		Rule:        "enumerated injection points: 14 life-cycle points of the target process (start-up loop, spawned, released, run.enter, after the stop check, before launch, after Wait, after back-off, run.end, before unregistration, inside a concurrent StopProcess x2, running, pending) x 4 triggers (API, exit_on_failure, exit_on_end, exit_on_skipped) x 4 shapes x ordered on/off = 448 combinations, the target held at the yield point while the shutdown is issued; plus random graphs with a shutdown at a random instant; non-trivial = the hold was actually reached (or a shutdown returned in random cases); distinct = event-order signature",
		Assumptions: []string{"holds are bounded (250 ms) yield-point delays, never unbounded", "hang = 4 s of silence with nothing alive"},
		Gen: func(seed int64, tier string) []fw.Case {
			var cs []fw.Case
			reps := tierN(tier, 3, 40)
			for rep := 0; rep < reps; rep++ {
				for i := 0; i < 448; i++ {
					s := fw.SubSeed(seed, rep*448+i)
					spec, label := genShutdownCase(fw.Rand(s), i)
					c := fw.MkCase("C03", "inject:"+label, s, spec)
					cs = append(cs, c)
				}
			}
			n := tierN(tier, 1500, 30000)
			for i := 0; i < n; i++ {
				s := fw.SubSeed(seed, 5000000+i)
				cs = append(cs, fw.MkCase("C03", "random", s, genShutdownRandom(fw.Rand(s))))
			}
			for i := 0; i < tierN(tier, 200, 4000); i++ {
				s := fw.SubSeed(seed, 7000000+i)
				cs = append(cs, fw.MkCase("C03", "repeated", s, genShutdownRepeated(fw.Rand(s), i)))
			}
			// request histories (explicitly started disabled processes included)
			// that end with a shutdown, ordered or not
			for i := 0; i < tierN(tier, 600, 10000); i++ {
				s := fw.SubSeed(seed, 8000000+i)
				cs = append(cs, fw.MkCase("C03", "manual-then-shutdown", s, genManualCase(fw.Rand(s), i)))
			}
			return cs
		},
		Run: func(c fw.Case) fw.Result {
			r := runGraphCase(c, everyOracle, func(lr *LifeRun, ix *lifeIndex) bool {
				if len(lr.Spec.Holds) > 0 {
					for _, e := range ix.ev {
						if e.Kind == sim.EvYield && len(e.Str2) > 5 && e.Str2[:5] == "hold:" {
							return true
						}
					}
					return false
				}
				return len(ix.shutdownEnter) > 0
			}, lifeSigKinds)
			if r.NonTrivial && len(c.Kind) > 7 && c.Kind[:7] == "inject:" {
				r.Count("hold_reached", 1)
			}
			return r
		},
		Workers: func(string) int { return 32 },
	})

	fw.Register(&fw.Property{
		ID: "C08", Level: "exploration",
		Rule:        "random histories (3-15 requests) of start/stop/restart on 1-3 processes plus unknown names, sequential and in concurrent bursts of 2-4 identical or mixed requests, against behaviours fast exit / slow reaction to the stop signal (longer than the back-off) / restarting / pending on a dependency / disabled, with bounded holds at start.afterCheck, restart.afterStop, runner.afterRun, run.beforeLaunch, stop.afterCancel; oracles: instance overlap, per-request post-conditions, instance conservation; non-trivial = at least 2 requests on known processes returned; distinct = event-order signature",
		Assumptions: []string{"per-request attribution of new instances is skipped while another start/restart of the same process overlaps the request"},
		Gen: func(seed int64, tier string) []fw.Case {
			var cs []fw.Case
			n := tierN(tier, 3000, 50000)
			for i := 0; i < n; i++ {
				s := fw.SubSeed(seed, i)
				cs = append(cs, fw.MkCase("C08", "history", s, genManualCase(fw.Rand(s), i)))
			}
			return cs
		},
		Run: lifeRun(func(lr *LifeRun, ix *lifeIndex) bool {
			n := 0
			for _, e := range ix.ev {
				if e.Kind == sim.EvApiRet && e.Proc != "nosuch" && e.Proc != "" {
					n++
				}
			}
			return n >= 2
		}),
		Workers: func(string) int { return 32 },
	})

	fw.Register(&fw.Property{
		ID: "C09", Level: "exploration",
		Rule:        "every status write (state hook under the state mutex) of every process in a mix of all lifecycle workloads (random graphs with failures and API requests, restart grids with stops, shutdown injections, manual request histories, ordered shutdowns) is checked against the legal transition relation per instance, and against the command ground truth (terminal only when no command of the instance is alive, exit code equals the last command's, no transient status at the end); non-trivial = at least 3 status writes; distinct = event-order signature of instance/state events",
		Assumptions: []string{"transition table transcribed from the statement; transitions are tracked per Process instance"},
		Gen: func(seed int64, tier string) []fw.Case {
			var cs []fw.Case
			n := tierN(tier, 4000, 60000)
			for i := 0; i < n; i++ {
				s := fw.SubSeed(seed, i)
				rng := fw.Rand(s)
				var spec LifeSpec
				kind := ""
				switch i % 6 {
				case 0:
					spec, kind = genGraph(rng, graphOpts{MaxN: 7, Restarts: true, ApiOps: true, ExitOn: true}), "graph"
				case 1:
					spec, kind = genRestartStopCase(rng, i/6), "restart-stop"
				case 2:
					spec, _ = genShutdownCase(rng, i/6)
					kind = "shutdown-inject"
				case 3:
					spec, kind = genManualCase(rng, i/6), "manual"
				case 4:
					spec, kind = genRestartCase(rng, i/6), "restart-grid"
				case 5:
					spec, kind = genGraph(rng, graphOpts{MaxN: 6, FailHeavy: true, Probes: i%30 == 5}), "graph-fail"
				}
				cs = append(cs, fw.MkCase("C09", kind, s, spec))
			}
			return cs
		},
		Run: func(c fw.Case) fw.Result {
			r := runGraphCase(c, everyOracle, func(lr *LifeRun, ix *lifeIndex) bool {
				n := 0
				for _, e := range ix.ev {
					if e.Kind == sim.EvState {
						n++
					}
				}
				return n >= 3
			}, []string{sim.EvState, sim.EvInstance})
			return r
		},
		Workers: func(string) int { return 32 },
	})

	fw.Register(&fw.Property{
		ID: "C12", Level: "exploration",
		Rule:        "ordered shutdown on chains, fan-in, fan-out, layered and random graphs of 3-8 long-running processes with per-process termination latencies 0-80 ms, some already exited when the shutdown arrives; oracle: no process is signalled while a direct dependent that was alive when the shutdown began has not exited; non-trivial = at least one (dependency, live dependent) pair was checked; distinct = event-order signature",
		Assumptions: []string{"'running when the shutdown began' = a command alive at the shutdown.enter event"},
		Gen: func(seed int64, tier string) []fw.Case {
			var cs []fw.Case
			n := tierN(tier, 3000, 45000)
			for i := 0; i < n; i++ {
				s := fw.SubSeed(seed, i)
				cs = append(cs, fw.MkCase("C12", "ordered", s, genOrderedCase(fw.Rand(s), i)))
			}
			return cs
		},
		Run: func(c fw.Case) fw.Result {
			r := runGraphCase(c, everyOracle, func(lr *LifeRun, ix *lifeIndex) bool { return true }, lifeSigKinds)
			r.NonTrivial = r.Counters["ordered_pairs_checked"] > 0
			return r
		},
		Workers: func(string) int { return 48 },
	})
}
