package props

import (
	"bytes"
	"encoding/json"
	"fmt"
	"math"
	"math/rand"
	"os"
	"path/filepath"
	"reflect"
	"sort"
	"strings"
	"text/template"

	"github.com/f1bonacc1/process-compose/src/health"
	"github.com/f1bonacc1/process-compose/src/loader"
	"github.com/f1bonacc1/process-compose/src/types"

	"pcverif/fw"
	"pcverif/sim"
)

func loadOnce(files []string) (*types.Project, error) {
	opts := &loader.LoaderOptions{FileNames: append([]string(nil), files...), IsInternalLoader: true}
	opts.DisableDotenv(true)
	return loader.Load(opts)
}

func canon(v any) string {
	b, err := json.Marshal(v)
	if err != nil {
		return "MARSHAL-ERROR: " + err.Error()
	}
	return string(b)
}

func refRender(src string, vars map[string]any) string {
	if src == "" {
		return ""
	}
	tpl, err := template.New("").Parse(src)
	if err != nil {
		return "PARSE-ERROR"
	}
	var buf bytes.Buffer
	if err := tpl.Execute(&buf, vars); err != nil {
		return "EXEC-ERROR"
	}
	return buf.String()
}

func refReplicaName(name string, replicas, k int) string {
	if replicas <= 1 {
		return name
	}
	w := 1 + int(math.Log10(float64(replicas)))
	return fmt.Sprintf("%s-%0*d", name, w, k)
}

// ------------------------------------------------------------------ C16

type ldProc struct {
	Name          string         `json:"name"`
	Replicas      int            `json:"replicas,omitempty"`
	CmdRest       string         `json:"cmd_rest,omitempty"`
	WorkingDir    string         `json:"working_dir,omitempty"`
	LogLocation   string         `json:"log_location,omitempty"`
	Description   string         `json:"description,omitempty"`
	Vars          map[string]any `json:"vars,omitempty"`
	ReadyExec     string         `json:"ready_exec,omitempty"`
	LiveHost      string         `json:"live_host,omitempty"`
	LivePath      string         `json:"live_path,omitempty"`
	LivePort      string         `json:"live_port,omitempty"`
	Namespace     string         `json:"namespace,omitempty"`
	LaunchTimeout int            `json:"launch_timeout,omitempty"`
	Disabled      bool           `json:"disabled,omitempty"` // disabled: true - still loaded, rendered and given its defaults (it can be started later)
	NameKey       string         `json:"name_key,omitempty"` // a "name:" key inside the process block (the map key is the name)
	Shadowed      bool           `json:"shadowed,omitempty"` // named like a replica of another process: which one survives is not judged, only that loads agree and the replicas are right
}

type ldSpec struct {
	Procs []ldProc       `json:"procs"`
	Vars  map[string]any `json:"vars,omitempty"`
}

func yamlScalar(v any) string {
	switch x := v.(type) {
	case string:
		return yq(x)
	case float64:
		// case parameters travel as JSON: integral numbers are integers
		if x == math.Trunc(x) && math.Abs(x) < 1e15 {
			return fmt.Sprintf("%d", int64(x))
		}
		return fmt.Sprint(x)
	default:
		return fmt.Sprint(x)
	}
}

func (sp *ldSpec) yaml() string {
	var b strings.Builder
	b.WriteString("version: \"0.5\"\n")
	if len(sp.Vars) > 0 {
		b.WriteString("vars:\n")
		for _, k := range sortedKeys(sp.Vars) {
			fmt.Fprintf(&b, "  %s: %s\n", k, yamlScalar(sp.Vars[k]))
		}
	}
	b.WriteString("processes:\n")
	for _, p := range sp.Procs {
		fmt.Fprintf(&b, "  %s:\n    command: %s\n", p.Name, yq(p.cmdSource()))
		if p.Replicas != 0 {
			fmt.Fprintf(&b, "    replicas: %d\n", p.Replicas)
		}
		if p.WorkingDir != "" {
			fmt.Fprintf(&b, "    working_dir: %s\n", yq(p.WorkingDir))
		}
		if p.LogLocation != "" {
			fmt.Fprintf(&b, "    log_location: %s\n", yq(p.LogLocation))
		}
		if p.Description != "" {
			fmt.Fprintf(&b, "    description: %s\n", yq(p.Description))
		}
		if p.Namespace != "" {
			fmt.Fprintf(&b, "    namespace: %s\n", p.Namespace)
		}
		if p.NameKey != "" {
			fmt.Fprintf(&b, "    name: %s\n", yq(p.NameKey))
		}
		if p.Disabled {
			b.WriteString("    disabled: true\n")
		}
		if p.LaunchTimeout != 0 {
			fmt.Fprintf(&b, "    launch_timeout_seconds: %d\n", p.LaunchTimeout)
		}
		if len(p.Vars) > 0 {
			b.WriteString("    vars:\n")
			for _, k := range sortedKeys(p.Vars) {
				fmt.Fprintf(&b, "      %s: %s\n", k, yamlScalar(p.Vars[k]))
			}
		}
		if p.ReadyExec != "" {
			fmt.Fprintf(&b, "    readiness_probe:\n      exec:\n        command: %s\n      period_seconds: 5\n", yq(p.ReadyExec))
		}
		if p.LiveHost != "" || p.LivePath != "" || p.LivePort != "" {
			b.WriteString("    liveness_probe:\n      http_get:\n")
			if p.LiveHost != "" {
				fmt.Fprintf(&b, "        host: %s\n", yq(p.LiveHost))
			}
			if p.LivePath != "" {
				fmt.Fprintf(&b, "        path: %s\n", yq(p.LivePath))
			}
			if p.LivePort != "" {
				fmt.Fprintf(&b, "        port: %s\n", yq(p.LivePort))
			}
		}
	}
	return b.String()
}

func (p *ldProc) cmdSource() string {
	return sim.FormatCommand(sim.Script{W: 0}, p.CmdRest)
}

// normNum: case parameters travel as JSON, where integers become float64;
// the YAML file carries them as integers again (see yamlScalar)
func normNum(v any) any {
	if f, ok := v.(float64); ok && f == math.Trunc(f) && math.Abs(f) < 1e15 {
		return int(f)
	}
	return v
}

func sortedKeys(m map[string]any) []string {
	var ks []string
	for k := range m {
		ks = append(ks, k)
	}
	sort.Strings(ks)
	return ks
}

func genLdSpec(rng *rand.Rand) ldSpec {
	sp := ldSpec{}
	if rng.Intn(3) != 0 {
		sp.Vars = map[string]any{"GV": fmt.Sprintf("g%d", rng.Intn(100)), "GN": rng.Intn(2000000), "SH": "global"}
	}
	tpls := []string{"", "plain", "r{{.PC_REPLICA_NUM}}", "x-{{.LV}}-{{.PC_REPLICA_NUM}}", "{{.GV}}/{{.SH}}", "n{{.GN}}", "{{.SH}}-{{.LV}}", "{{if .LV}}has{{end}}{{.PC_REPLICA_NUM}}",
		"{{/* nothing to render */}}", "{{- /* trimmed */ -}}", "{{if .NOPE}}never{{end}}"}
	pick := func() string { return tpls[rng.Intn(len(tpls))] }
	n := 1 + rng.Intn(4)
	for i := 0; i < n; i++ {
		p := ldProc{Name: fmt.Sprintf("q%d", i)}
		p.Replicas = []int{0, 1, 2, 3, 4, 10, 11}[rng.Intn(7)]
		p.CmdRest = pick()
		if rng.Intn(2) == 0 {
			p.WorkingDir = "/tmp/" + pick()
		}
		if rng.Intn(2) == 0 {
			p.LogLocation = "/dev/shm/pcverif-ld/" + pick() + ".log"
		}
		p.Description = pick()
		if rng.Intn(2) == 0 {
			p.Vars = map[string]any{"LV": fmt.Sprintf("l%d", rng.Intn(50))}
			if rng.Intn(2) == 0 {
				p.Vars["SH"] = "local"
			}
		}
		if rng.Intn(2) == 0 {
			p.ReadyExec = "test -e /tmp/" + pick()
		}
		if rng.Intn(2) == 0 {
			p.LiveHost = "h" + pick()
			p.LivePath = "/p" + pick()
			p.LivePort = []string{"80{{.PC_REPLICA_NUM}}", "8080", "9{{.PC_REPLICA_NUM}}0"}[rng.Intn(3)]
		}
		if rng.Intn(3) == 0 {
			p.Namespace = "ns" + fmt.Sprint(rng.Intn(3))
		}
		if rng.Intn(4) == 0 {
			p.LaunchTimeout = []int{-1, 3, 9}[rng.Intn(3)]
		}
		if rng.Intn(12) == 0 {
			p.NameKey = []string{"other", "q0", "q1-0", ""}[rng.Intn(4)]
		}
		p.Disabled = rng.Intn(5) == 0
		sp.Procs = append(sp.Procs, p)
	}
	for _, p := range sp.Procs {
		if p.Replicas >= 2 && p.Replicas < 10 && rng.Intn(6) == 0 {
			sh := ldProc{Name: fmt.Sprintf("%s-%d", p.Name, rng.Intn(p.Replicas)), CmdRest: "shadow r{{.PC_REPLICA_NUM}}", Shadowed: true}
			if rng.Intn(2) == 0 {
				// itself replicated: all replica names are distinct, a valid file
				sh.Replicas, sh.Shadowed = 2+rng.Intn(2), false
			}
			sp.Procs = append(sp.Procs, sh)
			break
		}
	}
	return sp
}

func runLoadDet(c fw.Case) fw.Result {
	var sp ldSpec
	c.Params(&sp)
	r := fw.Result{NonTrivial: true}
	dir, err := os.MkdirTemp(sim.Scratch, "ld-")
	if err != nil {
		r.Inconclusive = err.Error()
		return r
	}
	defer os.RemoveAll(dir)
	file, _ := sim.WriteTemp(dir, "pc.yaml", sp.yaml())
	var first string
	var prj *types.Project
	for i := 0; i < 5; i++ {
		p, err := loadOnce([]string{file})
		if err != nil {
			r.Inconclusive = "load: " + err.Error()
			r.Witness = strings.Split(sp.yaml(), "\n")
			return r
		}
		cj := canon(p)
		if i == 0 {
			first, prj = cj, p
		} else if cj != first {
			r.Add("C16", "nondeterministic-load", "load %d of the same file differs from load 0", i)
			r.Witness = append(strings.Split(sp.yaml(), "\n"), "--- load 0 ---", first, "--- load "+fmt.Sprint(i)+" ---", cj)
			break
		}
	}
	r.Count("loads", 5)
	multi := false
	for _, ps := range sp.Procs {
		if ps.Shadowed {
			continue
		}
		n := ps.Replicas
		if n < 1 {
			n = 1
		}
		if n > 1 {
			multi = true
		}
		seen := map[string]bool{}
		var reps []*types.ProcessConfig
		for k := 0; k < n; k++ {
			name := refReplicaName(ps.Name, n, k)
			pc, ok := prj.Processes[name]
			if !ok {
				r.Add("C16", "replica-missing", "%s with %d replicas: replica %q is missing (have %v)", ps.Name, n, name, procKeys(prj))
				continue
			}
			if seen[pc.ReplicaName] {
				r.Add("C16", "replica-name-duplicate", "replica name %q appears twice", pc.ReplicaName)
			}
			seen[pc.ReplicaName] = true
			pcc := pc
			reps = append(reps, &pcc)
			if pc.Name != ps.Name || pc.ReplicaName != name || pc.ReplicaNum != k {
				r.Add("C16", "replica-identity", "%s: Name=%q ReplicaName=%q ReplicaNum=%d, expected %q %q %d", name, pc.Name, pc.ReplicaName, pc.ReplicaNum, ps.Name, name, k)
			}
			wantNs := ps.Namespace
			if wantNs == "" {
				wantNs = "default"
			}
			if pc.Namespace != wantNs {
				r.Add("C16", "default-namespace", "%s: namespace %q, expected %q", name, pc.Namespace, wantNs)
			}
			if pc.Replicas < 1 || pc.Replicas != n {
				r.Add("C16", "default-replicas", "%s: replicas %d, expected %d", name, pc.Replicas, n)
			}
			if pc.LaunchTimeout < 1 {
				r.Add("C16", "default-launch-timeout", "%s: launch timeout %d", name, pc.LaunchTimeout)
			}
			if ps.LaunchTimeout > 0 && pc.LaunchTimeout != ps.LaunchTimeout {
				r.Add("C16", "launch-timeout-lost", "%s: launch timeout %d, configured %d", name, pc.LaunchTimeout, ps.LaunchTimeout)
			}
			// per-replica rendering with this replica's own variables
			vars := map[string]any{}
			for k2, v := range sp.Vars {
				vars[k2] = normNum(v)
			}
			for k2, v := range ps.Vars {
				vars[k2] = normNum(v)
			}
			vars["PC_REPLICA_NUM"] = k
			chk := func(field, got, src string) {
				want := refRender(src, vars)
				r.Count("rendered_fields_checked", 1)
				if got != want {
					r.Add("C16", "render:"+field, "%s: %s = %q, expected %q (template %q rendered with replica %d's variables)", name, field, got, want, src, k)
				}
			}
			chk("command", pc.Command, ps.cmdSource())
			chk("working_dir", pc.WorkingDir, ps.WorkingDir)
			chk("log_location", pc.LogLocation, ps.LogLocation)
			chk("description", pc.Description, ps.Description)
			if len(pc.Args) < 2 || pc.Args[len(pc.Args)-1] != pc.Command {
				r.Add("C16", "args-not-rendered-command", "%s: args %v do not carry the rendered command %q", name, pc.Args, pc.Command)
			}
			if ps.ReadyExec != "" {
				if pc.ReadinessProbe == nil || pc.ReadinessProbe.Exec == nil {
					r.Add("C16", "probe-lost", "%s: readiness probe missing", name)
				} else {
					chk("readiness.exec.command", pc.ReadinessProbe.Exec.Command, ps.ReadyExec)
				}
			}
			if ps.LiveHost != "" {
				if pc.LivenessProbe == nil || pc.LivenessProbe.HttpGet == nil {
					r.Add("C16", "probe-lost", "%s: liveness probe missing", name)
				} else {
					chk("liveness.http.host", pc.LivenessProbe.HttpGet.Host, ps.LiveHost)
					chk("liveness.http.path", pc.LivenessProbe.HttpGet.Path, ps.LivePath)
					chk("liveness.http.port", pc.LivenessProbe.HttpGet.Port, ps.LivePort)
				}
			}
		}
		// nothing that is rendered per replica may be shared between replicas
		for a := 0; a < len(reps); a++ {
			for b := a + 1; b < len(reps); b++ {
				ra, rb := reps[a], reps[b]
				if shared(ra.ReadinessProbe, rb.ReadinessProbe) || shared(ra.LivenessProbe, rb.LivenessProbe) {
					r.Add("C16", "replicas-share-probe", "%s and %s share one probe object: configuring one changes the other", ra.ReplicaName, rb.ReplicaName)
				}
				if ra.ReadinessProbe != nil && rb.ReadinessProbe != nil && (sharedPtr(ra.ReadinessProbe.Exec, rb.ReadinessProbe.Exec)) {
					r.Add("C16", "replicas-share-probe", "%s and %s share one exec probe object", ra.ReplicaName, rb.ReplicaName)
				}
				if ra.LivenessProbe != nil && rb.LivenessProbe != nil && (sharedPtr(ra.LivenessProbe.HttpGet, rb.LivenessProbe.HttpGet)) {
					r.Add("C16", "replicas-share-probe", "%s and %s share one http probe object", ra.ReplicaName, rb.ReplicaName)
				}
				if ra.Vars != nil && rb.Vars != nil && reflect.ValueOf(ra.Vars).Pointer() == reflect.ValueOf(rb.Vars).Pointer() {
					r.Add("C16", "replicas-share-vars", "%s and %s share one variables map", ra.ReplicaName, rb.ReplicaName)
				}
			}
		}
	}
	if len(r.Findings) > 0 && r.Witness == nil {
		r.Witness = strings.Split(sp.yaml(), "\n")
	}
	r.NonTrivial = multi || len(sp.Vars) > 0
	r.Sig = sim.Hash(sp.yaml())
	if c.Idx < 3 {
		r.Sample = strings.Split(sp.yaml(), "\n")
	}
	return r
}

func shared(a, b *health.Probe) bool { return a != nil && a == b }

func sharedPtr[T any](a, b *T) bool { return a != nil && a == b }

func procKeys(p *types.Project) []string {
	var ks []string
	for k := range p.Processes {
		ks = append(ks, k)
	}
	sort.Strings(ks)
	return ks
}

// ------------------------------------------------------------------ C15

type mgProc struct {
	Name        string            `json:"name"`
	Command     string            `json:"command,omitempty"`
	WorkingDir  string            `json:"working_dir,omitempty"`
	Description string            `json:"description,omitempty"`
	Namespace   string            `json:"namespace,omitempty"`
	LogLocation string            `json:"log_location,omitempty"`
	ReadyLine   string            `json:"ready_log_line,omitempty"`
	Disabled    bool              `json:"disabled,omitempty"`
	IsDaemon    bool              `json:"is_daemon,omitempty"`
	Restart     string            `json:"restart,omitempty"`
	Backoff     int               `json:"backoff,omitempty"`
	MaxRestarts int               `json:"max_restarts,omitempty"`
	Signal      int               `json:"signal,omitempty"`
	StopTimeout int               `json:"stop_timeout,omitempty"`
	Env         []string          `json:"env,omitempty"` // KEY=VALUE, unique keys
	Deps        map[string]string `json:"deps,omitempty"`
}

type mgFile struct {
	Procs     []mgProc `json:"procs"`
	Env       []string `json:"env,omitempty"`
	LogLength int      `json:"log_length,omitempty"`
	IsStrict  bool     `json:"is_strict,omitempty"`
}

type mgSpec struct {
	Files   []mgFile `json:"files"`
	Extends bool     `json:"extends,omitempty"` // file[1] extends file[0] which lives in a sub-directory
}

func (f *mgFile) yaml(extends string) string {
	var b strings.Builder
	b.WriteString("version: \"0.5\"\n")
	if extends != "" {
		fmt.Fprintf(&b, "extends: %s\n", yq(extends))
	}
	if f.LogLength != 0 {
		fmt.Fprintf(&b, "log_length: %d\n", f.LogLength)
	}
	if f.IsStrict {
		b.WriteString("is_strict: true\n")
	}
	if len(f.Env) > 0 {
		b.WriteString("environment:\n")
		for _, e := range f.Env {
			fmt.Fprintf(&b, "  - %s\n", yq(e))
		}
	}
	if len(f.Procs) > 0 {
		b.WriteString("processes:\n")
	}
	for _, p := range f.Procs {
		fmt.Fprintf(&b, "  %s:\n", p.Name)
		empty := true
		w := func(format string, a ...any) { fmt.Fprintf(&b, format, a...); empty = false }
		if p.Command != "" {
			w("    command: %s\n", yq(p.Command))
		}
		if p.WorkingDir != "" {
			w("    working_dir: %s\n", yq(p.WorkingDir))
		}
		if p.Description != "" {
			w("    description: %s\n", yq(p.Description))
		}
		if p.Namespace != "" {
			w("    namespace: %s\n", p.Namespace)
		}
		if p.LogLocation != "" {
			w("    log_location: %s\n", yq(p.LogLocation))
		}
		if p.ReadyLine != "" {
			w("    ready_log_line: %s\n", yq(p.ReadyLine))
		}
		if p.Disabled {
			w("    disabled: true\n")
		}
		if p.IsDaemon {
			w("    is_daemon: true\n")
		}
		if p.Restart != "" || p.Backoff != 0 || p.MaxRestarts != 0 {
			w("    availability:\n")
			if p.Restart != "" {
				w("      restart: %s\n", yq(p.Restart))
			}
			if p.Backoff != 0 {
				w("      backoff_seconds: %d\n", p.Backoff)
			}
			if p.MaxRestarts != 0 {
				w("      max_restarts: %d\n", p.MaxRestarts)
			}
		}
		if p.Signal != 0 || p.StopTimeout != 0 {
			w("    shutdown:\n")
			if p.Signal != 0 {
				w("      signal: %d\n", p.Signal)
			}
			if p.StopTimeout != 0 {
				w("      timeout_seconds: %d\n", p.StopTimeout)
			}
		}
		if len(p.Env) > 0 {
			w("    environment:\n")
			for _, e := range p.Env {
				w("      - %s\n", yq(e))
			}
		}
		if len(p.Deps) > 0 {
			w("    depends_on:\n")
			var ks []string
			for k := range p.Deps {
				ks = append(ks, k)
			}
			sort.Strings(ks)
			for _, k := range ks {
				w("      %s:\n        condition: %s\n", k, p.Deps[k])
			}
		}
		if empty {
			// a process entry must mention something
			w("    description: %s\n", yq("d-"+p.Name))
		}
	}
	return b.String()
}

var hostileVals = []string{"", "v", "100%", "%s and %d", "50%% of %v", "a=b", "a=b=c", "http://h/p?x=1&y=2", "with space", " lead", "trail ", "q\"uote", "h#ash", "co:lon", "üñí", "=", "==", "k=v,k2=v2", "-dash", "{brace}", "*"}

func genEnv(rng *rand.Rand, prefix string, n int) []string {
	var out []string
	for i := 0; i < n; i++ {
		out = append(out, fmt.Sprintf("%s%d=%s", prefix, i, hostileVals[rng.Intn(len(hostileVals))]))
	}
	return out
}

func genMgSpec(rng *rand.Rand, extends bool) mgSpec {
	sp := mgSpec{Extends: extends}
	nfiles := 2
	if rng.Intn(4) == 0 {
		nfiles = 3
	}
	names := []string{"ma", "mb", "mc", "md"}
	words := func(tag string) string { return fmt.Sprintf("%s-%d", tag, rng.Intn(1000)) }
	for f := 0; f < nfiles; f++ {
		file := mgFile{}
		if rng.Intn(3) == 0 {
			file.LogLength = 100 + rng.Intn(900)
		}
		if rng.Intn(2) == 0 {
			// overlapping keys K0.. across files
			file.Env = genEnv(rng, "G", 1+rng.Intn(4))
		}
		for i, n := range names {
			inThis := rng.Intn(3) != 0
			if f == 0 && i == 0 {
				inThis = true
			}
			if !inThis {
				continue
			}
			p := mgProc{Name: n}
			if f == 0 || rng.Intn(2) == 0 {
				p.Command = "echo " + words("cmd")
			}
			opt := func() bool { return rng.Intn(3) == 0 }
			if opt() {
				p.WorkingDir = []string{"/tmp", "rel/dir", "/var/tmp", "sub"}[rng.Intn(4)]
			}
			if opt() {
				p.Description = words("desc")
			}
			if opt() {
				p.Namespace = "ns" + fmt.Sprint(rng.Intn(3))
			}
			if opt() {
				p.ReadyLine = words("ready")
			}
			if rng.Intn(8) == 0 {
				p.Disabled = true
			}
			if rng.Intn(8) == 0 {
				p.IsDaemon = true
			}
			if opt() {
				p.Restart = []string{"always", "on_failure", "exit_on_failure", "no"}[rng.Intn(4)]
			}
			if opt() {
				p.Backoff = 1 + rng.Intn(9)
			}
			if opt() {
				p.MaxRestarts = 1 + rng.Intn(5)
			}
			if opt() {
				p.Signal = 1 + rng.Intn(20)
			}
			if opt() {
				p.StopTimeout = 1 + rng.Intn(9)
			}
			if rng.Intn(2) == 0 {
				p.Env = genEnv(rng, "K", 1+rng.Intn(4))
			}
			// dependencies only on earlier names (keeps the union acyclic)
			for j := 0; j < i; j++ {
				if rng.Intn(4) == 0 {
					if p.Deps == nil {
						p.Deps = map[string]string{}
					}
					p.Deps[names[j]] = []string{types.ProcessConditionCompleted, types.ProcessConditionStarted, types.ProcessConditionCompletedSuccessfully}[rng.Intn(3)]
				}
			}
			file.Procs = append(file.Procs, p)
		}
		sp.Files = append(sp.Files, file)
	}
	// dependencies only on processes that exist in the union; every entry
	// mentions at least one option
	defined := map[string]bool{}
	for _, f := range sp.Files {
		for _, p := range f.Procs {
			defined[p.Name] = true
		}
	}
	for fi := range sp.Files {
		for pi := range sp.Files[fi].Procs {
			p := &sp.Files[fi].Procs[pi]
			for d := range p.Deps {
				if !defined[d] {
					delete(p.Deps, d)
				}
			}
			if len(p.Deps) == 0 {
				p.Deps = nil
			}
			if p.Command == "" && p.WorkingDir == "" && p.Description == "" && p.Namespace == "" && p.ReadyLine == "" && !p.Disabled && !p.IsDaemon &&
				p.Restart == "" && p.Backoff == 0 && p.MaxRestarts == 0 && p.Signal == 0 && p.StopTimeout == 0 && len(p.Env) == 0 && len(p.Deps) == 0 {
				p.Description = "d-" + p.Name
			}
		}
	}
	return sp
}

func envMap(env []string) map[string]string {
	m := map[string]string{}
	for _, e := range env {
		if i := strings.IndexByte(e, '='); i >= 0 {
			m[e[:i]] = e[i+1:]
		}
	}
	return m
}

// refMerge is the reference merge written from docs/merge.md over the
// generated values.
func refMerge(files []mgFile) (map[string]mgProc, map[string]string, int) {
	procs := map[string]mgProc{}
	genv := map[string]string{}
	logLen := 0
	envs := map[string]map[string]string{}
	for _, f := range files {
		if f.LogLength != 0 {
			logLen = f.LogLength
		}
		for k, v := range envMap(f.Env) {
			genv[k] = v
		}
		for _, p := range f.Procs {
			cur, ok := procs[p.Name]
			if !ok {
				cur = mgProc{Name: p.Name}
				envs[p.Name] = map[string]string{}
			}
			str := func(dst *string, v string) {
				if v != "" {
					*dst = v
				}
			}
			num := func(dst *int, v int) {
				if v != 0 {
					*dst = v
				}
			}
			str(&cur.Command, p.Command)
			str(&cur.WorkingDir, p.WorkingDir)
			str(&cur.Description, p.Description)
			str(&cur.Namespace, p.Namespace)
			str(&cur.LogLocation, p.LogLocation)
			str(&cur.ReadyLine, p.ReadyLine)
			str(&cur.Restart, p.Restart)
			num(&cur.Backoff, p.Backoff)
			num(&cur.MaxRestarts, p.MaxRestarts)
			num(&cur.Signal, p.Signal)
			num(&cur.StopTimeout, p.StopTimeout)
			if p.Disabled {
				cur.Disabled = true
			}
			if p.IsDaemon {
				cur.IsDaemon = true
			}
			for k, v := range envMap(p.Env) {
				envs[p.Name][k] = v
			}
			if len(p.Deps) > 0 && cur.Deps == nil {
				cur.Deps = map[string]string{}
			}
			for k, v := range p.Deps {
				cur.Deps[k] = v
			}
			procs[p.Name] = cur
		}
	}
	for n, p := range procs {
		var env []string
		for k, v := range envs[n] {
			env = append(env, k+"="+v)
		}
		sort.Strings(env)
		p.Env = env
		procs[n] = p
	}
	return procs, genv, logLen
}

func runMerge(c fw.Case) fw.Result {
	var sp mgSpec
	c.Params(&sp)
	r := fw.Result{NonTrivial: true}
	dir, err := os.MkdirTemp(sim.Scratch, "mg-")
	if err != nil {
		r.Inconclusive = err.Error()
		return r
	}
	defer os.RemoveAll(dir)
	var files []string
	baseDir := dir
	if sp.Extends {
		baseDir = filepath.Join(dir, "basedir")
	}
	for i := range sp.Files {
		d := dir
		if i == 0 {
			d = baseDir
		}
		f, _ := sim.WriteTemp(d, fmt.Sprintf("f%d.yaml", i), sp.Files[i].yaml(""))
		files = append(files, f)
	}
	describe := func() []string {
		var w []string
		for i := range sp.Files {
			w = append(w, fmt.Sprintf("--- file %d ---", i))
			w = append(w, strings.Split(sp.Files[i].yaml(""), "\n")...)
		}
		return w
	}
	prj, err := loadOnce(files)
	if err != nil {
		r.Inconclusive = "load: " + err.Error()
		r.Witness = describe()
		return r
	}
	wantProcs, wantEnv, wantLogLen := refMerge(sp.Files)
	if wantLogLen != 0 && prj.LogLength != wantLogLen {
		r.Add("C15", "project-scalar:log_length", "log_length %d, expected %d", prj.LogLength, wantLogLen)
	}
	gotEnv := envMap(prj.Environment)
	for k, v := range wantEnv {
		r.Count("env_entries_checked", 1)
		if gv, ok := gotEnv[k]; !ok {
			r.Add("C15", "global-env-lost", "global environment entry %s=%q is lost after the merge", k, v)
		} else if gv != v {
			r.Add("C15", "global-env-value", "global environment %s = %q, expected %q", k, gv, v)
		}
	}
	if len(gotEnv) != len(wantEnv) {
		r.Add("C15", "global-env-extra", "global environment has %d keys, expected %d", len(gotEnv), len(wantEnv))
	}
	if len(prj.Processes) != len(wantProcs) {
		r.Add("C15", "process-set", "merged project has processes %v, expected %d processes", procKeys(prj), len(wantProcs))
	}
	for name, want := range wantProcs {
		got, ok := prj.Processes[name]
		if !ok {
			r.Add("C15", "process-lost", "process %s defined in one of the files is missing after the merge", name)
			continue
		}
		cmp := func(field, g, w string) {
			r.Count("options_checked", 1)
			if g != w {
				r.Add("C15", "option:"+field, "%s: %s = %q, expected %q", name, field, g, w)
			}
		}
		cmpi := func(field string, g, w int) {
			r.Count("options_checked", 1)
			if g != w {
				r.Add("C15", "option:"+field, "%s: %s = %d, expected %d", name, field, g, w)
			}
		}
		cmp("command", got.Command, want.Command)
		cmp("working_dir", got.WorkingDir, want.WorkingDir)
		cmp("description", got.Description, want.Description)
		wantNs := want.Namespace
		if wantNs == "" {
			wantNs = "default"
		}
		cmp("namespace", got.Namespace, wantNs)
		cmp("ready_log_line", got.ReadyLogLine, want.ReadyLine)
		cmp("restart", got.RestartPolicy.Restart, want.Restart)
		cmpi("backoff_seconds", got.RestartPolicy.BackoffSeconds, want.Backoff)
		cmpi("max_restarts", got.RestartPolicy.MaxRestarts, want.MaxRestarts)
		cmpi("shutdown.signal", got.ShutDownParams.Signal, want.Signal)
		cmpi("shutdown.timeout_seconds", got.ShutDownParams.ShutDownTimeout, want.StopTimeout)
		if got.Disabled != want.Disabled {
			r.Add("C15", "option:disabled", "%s: disabled = %v, expected %v", name, got.Disabled, want.Disabled)
		}
		if got.IsDaemon != want.IsDaemon {
			r.Add("C15", "option:is_daemon", "%s: is_daemon = %v, expected %v", name, got.IsDaemon, want.IsDaemon)
		}
		ge, we := envMap(got.Environment), envMap(want.Env)
		for k, v := range we {
			r.Count("env_entries_checked", 1)
			if gv, ok := ge[k]; !ok {
				r.Add("C15", "env-lost", "%s: environment entry %s=%q is lost after the merge", name, k, v)
			} else if gv != v {
				r.Add("C15", "env-value", "%s: environment %s = %q, expected %q (byte for byte)", name, k, gv, v)
			}
		}
		if len(got.Environment) != len(we) {
			r.Add("C15", "env-extra", "%s: environment has %d entries %q, expected %d", name, len(got.Environment), got.Environment, len(we))
		}
		if len(got.DependsOn) != len(want.Deps) {
			r.Add("C15", "depends-on-set", "%s: depends_on %v, expected %v", name, got.DependsOn, want.Deps)
		}
		for d, cnd := range want.Deps {
			if got.DependsOn[d].Condition != cnd {
				r.Add("C15", "depends-on-condition", "%s: depends_on[%s] = %q, expected %q", name, d, got.DependsOn[d].Condition, cnd)
			}
		}
	}
	if sp.Extends && len(sp.Files) == 3 && len(r.Findings) == 0 {
		// chain: f2 extends f1 extends f0 must equal naming [f0, f1, f2]
		// (absolute or unset-by-all working dirs only: see the working-dir rule)
		// every file in its own directory, each referring to its base relative to itself
		midDir := filepath.Join(dir, "m")
		_ = os.MkdirAll(midDir, 0o755)
		rel01, _ := filepath.Rel(midDir, files[0])
		mid, _ := sim.WriteTemp(midDir, "mid.yaml", sp.Files[1].yaml(rel01))
		relMid, _ := filepath.Rel(dir, mid)
		top, _ := sim.WriteTemp(dir, "top.yaml", sp.Files[2].yaml(relMid))
		ext, err := loadOnce([]string{top})
		if err != nil {
			r.Add("C15", "extends-load-error", "loading the three-level extends chain failed: %v", err)
		} else {
			for name, a := range prj.Processes {
				b, ok := ext.Processes[name]
				if !ok {
					r.Add("C15", "extends-process-set", "process %s is missing when loaded through the extends chain", name)
					continue
				}
				a.WorkingDir, b.WorkingDir = "", ""
				a.OriginalConfig, b.OriginalConfig = "", ""
				if canon(a) != canon(b) {
					r.Add("C15", "extends-chain-differs", "%s differs between the extends chain f2->f1->f0 and naming the three files in order:\n  chain: %s\n  files: %s", name, canon(b), canon(a))
				}
			}
			if canon(envMap(ext.Environment)) != canon(envMap(prj.Environment)) {
				r.Add("C15", "extends-chain-differs", "global environment differs between the extends chain and naming the three files")
			}
			r.Count("extends_chains_checked", 1)
		}
	}
	if sp.Extends && len(sp.Files) == 2 && len(r.Findings) == 0 {
		// child with `extends` must give the same processes as naming both files,
		// apart from the working-dir rule for the base's processes
		rel, _ := filepath.Rel(dir, files[0])
		child, _ := sim.WriteTemp(dir, "child.yaml", sp.Files[1].yaml(rel))
		ext, err := loadOnce([]string{child})
		if err != nil {
			r.Add("C15", "extends-load-error", "loading the child with extends failed: %v", err)
		} else {
			inBase := map[string]*mgProc{}
			for i := range sp.Files[0].Procs {
				inBase[sp.Files[0].Procs[i].Name] = &sp.Files[0].Procs[i]
			}
			inChild := map[string]*mgProc{}
			for i := range sp.Files[1].Procs {
				inChild[sp.Files[1].Procs[i].Name] = &sp.Files[1].Procs[i]
			}
			if len(ext.Processes) != len(prj.Processes) {
				r.Add("C15", "extends-process-set", "extends gives processes %v, naming both files gives %v", procKeys(ext), procKeys(prj))
			}
			for name, a := range prj.Processes {
				b, ok := ext.Processes[name]
				if !ok {
					continue
				}
				wantWd := a.WorkingDir
				if bp := inBase[name]; bp != nil {
					bwd := bp.WorkingDir
					switch {
					case bwd == "":
						bwd = baseDir
					case !filepath.IsAbs(bwd):
						bwd = filepath.Join(baseDir, bwd)
					}
					wantWd = bwd
					if cp := inChild[name]; cp != nil && cp.WorkingDir != "" {
						wantWd = cp.WorkingDir
					}
				}
				if b.WorkingDir != wantWd {
					r.Add("C15", "extends-working-dir", "%s: working_dir %q with extends, expected %q", name, b.WorkingDir, wantWd)
				}
				a.WorkingDir, b.WorkingDir = "", ""
				a.OriginalConfig, b.OriginalConfig = "", ""
				if canon(a) != canon(b) {
					r.Add("C15", "extends-differs", "%s differs between extends and naming both files:\n  extends: %s\n  both:    %s", name, canon(b), canon(a))
				}
			}
			r.Count("extends_checked", 1)
		}
	}
	if len(r.Findings) > 0 {
		r.Witness = describe()
	}
	r.Sig = sim.Hash(strings.Join(describe(), "\n"))
	if c.Idx < 2 {
		r.Sample = describe()
	}
	return r
}

// runLoadEntrypoint: an entrypoint assembled from two files (base + override,
// slices are appended), elevated or not, on 1-4 replicas: every replica's
// executable and arguments are the full list, whatever was done to the others.
func runLoadEntrypoint(c fw.Case) fw.Result {
	var sp struct {
		Base     []string `json:"base"`
		Extra    []string `json:"extra"`
		Elevated bool     `json:"elevated"`
		Replicas int      `json:"replicas"`
	}
	c.Params(&sp)
	r := fw.Result{NonTrivial: true}
	dir, err := os.MkdirTemp(sim.Scratch, "ep-")
	if err != nil {
		r.Inconclusive = err.Error()
		return r
	}
	defer os.RemoveAll(dir)
	list := func(l []string) string {
		var b strings.Builder
		for _, e := range l {
			fmt.Fprintf(&b, "      - %s\n", yq(e))
		}
		return b.String()
	}
	base := "version: \"0.5\"\nprocesses:\n  ee:\n    entrypoint:\n" + list(sp.Base)
	if sp.Elevated {
		base += "    is_elevated: true\n"
	}
	if sp.Replicas > 1 {
		base += fmt.Sprintf("    replicas: %d\n", sp.Replicas)
	}
	files := []string{}
	f1, _ := sim.WriteTemp(dir, "base.yaml", base)
	files = append(files, f1)
	want := append([]string(nil), sp.Base...)
	if len(sp.Extra) > 0 {
		f2, _ := sim.WriteTemp(dir, "over.yaml", "version: \"0.5\"\nprocesses:\n  ee:\n    entrypoint:\n"+list(sp.Extra))
		files = append(files, f2)
		want = append(want, sp.Extra...)
	}
	prj, err := loadOnce(files)
	if err != nil {
		r.Inconclusive = "load: " + err.Error()
		return r
	}
	if sp.Elevated {
		want = append([]string{prj.ShellConfig.ElevatedShellCmd, prj.GetElevatedShellArg()}, want...)
	}
	n := sp.Replicas
	if n < 1 {
		n = 1
	}
	for k := 0; k < n; k++ {
		name := refReplicaName("ee", n, k)
		pc, ok := prj.Processes[name]
		if !ok {
			r.Add("C16", "replica-missing", "replica %s missing after load", name)
			continue
		}
		got := append([]string{pc.Executable}, pc.Args...)
		r.Count("replica_entrypoints_checked", 1)
		if !eqStrs(got, want) {
			r.Add("C16", "replica-entrypoint", "replica %s (of %d, elevated=%v, entrypoint from %d file(s)): executable+args %q, expected %q", name, n, sp.Elevated, len(files), got, want)
		}
	}
	r.Sig = sim.Hash(fmt.Sprint(sp))
	return r
}

func init() {
	fw.Register(&fw.Property{
		ID: "C16", Level: "exploration",
		Rule:        "generated configuration files (1-4 processes, replica counts {unset,1,2,3,4,10,11}, templates over global/local variables and PC_REPLICA_NUM in command, working_dir, log_location, description, exec and http probe fields, namespaces, launch timeouts), each loaded 5 times and compared as canonical JSON; every templated field of every replica is compared with an independent text/template rendering with that replica's variables; per-replica objects must not be shared; non-trivial = replicas > 1 or variables present; distinct = file content",
		Assumptions: []string{"missing variables render as text/template renders them", "exec probe working_dir is not in the statement's field list and not judged"},
		Gen: func(seed int64, tier string) []fw.Case {
			var cs []fw.Case
			for i := 0; i < tierN(tier, 12000, 150000); i++ {
				s := fw.SubSeed(seed, i)
				cs = append(cs, fw.MkCase("C16", "load", s, genLdSpec(fw.Rand(s))))
			}
			for i := 0; i < tierN(tier, 400, 4000); i++ {
				s := fw.SubSeed(seed, 3000000+i)
				rng := fw.Rand(s)
				var base, extra []string
				for k := 0; k < 1+rng.Intn(4); k++ {
					base = append(base, fmt.Sprintf("b%d", k))
				}
				for k := 0; k < rng.Intn(3); k++ {
					extra = append(extra, fmt.Sprintf("x%d", k))
				}
				cs = append(cs, fw.MkCase("C16", "entrypoint", s, map[string]any{"base": base, "extra": extra, "elevated": rng.Intn(3) != 0, "replicas": []int{0, 1, 2, 3, 4}[rng.Intn(5)]}))
			}
			return cs
		},
		Run: func(c fw.Case) fw.Result {
			if c.Kind == "entrypoint" {
				return runLoadEntrypoint(c)
			}
			return runLoadDet(c)
		},
		Workers: func(string) int { return 16 },
	})
	fw.Register(&fw.Property{
		ID: "C15", Level: "exploration",
		Rule:        "generated pairs/triples of configuration files over the documented option set (single-valued options, environment lists with hostile values, depends_on, overlapping and disjoint process sets); Load([files]) is compared option by option with a reference merge written from docs/merge.md over the generated values; half of the pairs are also loaded through `extends` from a different directory and compared with naming both files, apart from the working-dir rule; non-trivial = every case (at least one process in two files); distinct = file contents",
		Assumptions: []string{"only KEY=VALUE entries and non-zero override values are generated (mergo cannot express 'set to zero', the docs do not promise it)", "environment compared as key->value (order is not promised)"},
		Gen: func(seed int64, tier string) []fw.Case {
			var cs []fw.Case
			for i := 0; i < tierN(tier, 16000, 200000); i++ {
				s := fw.SubSeed(seed, i)
				cs = append(cs, fw.MkCase("C15", map[bool]string{false: "merge", true: "extends"}[i%2 == 1], s, genMgSpec(fw.Rand(s), i%2 == 1)))
			}
			return cs
		},
		Run:     runMerge,
		Workers: func(string) int { return 16 },
	})
}
