package props

import (
	"fmt"
	"math/rand"
	"net"
	"net/http"
	"sort"
	"strings"
	"sync"
	"time"

	"github.com/f1bonacc1/process-compose/src/types"

	"pcverif/sim"
)

// ---------------------------------------------------------------- spec

type Dep struct {
	On   string `json:"on"`
	Cond string `json:"cond"`
}

// PSpec describes one configured process of a lifecycle scenario.
type PSpec struct {
	Name          string       `json:"name"`
	Deps          []Dep        `json:"deps,omitempty"`
	Restart       string       `json:"restart,omitempty"`
	MaxRestarts   int          `json:"max_restarts,omitempty"`
	Backoff       int          `json:"backoff,omitempty"`
	ExitOnEnd     bool         `json:"exit_on_end,omitempty"`
	ExitOnSkipped bool         `json:"exit_on_skipped,omitempty"`
	Exits         []int        `json:"exits,omitempty"`
	RunMs         []int        `json:"run_ms,omitempty"`
	Sig           *sim.SigSpec `json:"sig,omitempty"`
	StartErr      []int        `json:"start_err,omitempty"`
	BadDir        bool         `json:"bad_dir,omitempty"`
	ReadyLine     string       `json:"ready_line,omitempty"`
	Probe         bool         `json:"probe,omitempty"`       // readiness http probe against the harness endpoint
	ProbeFail     int          `json:"probe_fail,omitempty"`  // failure_threshold
	ProbeDelay    int          `json:"probe_delay,omitempty"` // initial_delay_seconds
	Liveness      bool         `json:"liveness,omitempty"`
	LiveFail      int          `json:"live_fail,omitempty"`     // liveness failure_threshold
	ProbeSeq      []int        `json:"probe_seq,omitempty"`     // scripted probe outcomes (1 ok, 0 fail), then the switch value
	ProbeSlowMs   int          `json:"probe_slow_ms,omitempty"` // the probe endpoint answers this late
	ProbeExec     string       `json:"probe_exec,omitempty"`    // readiness (or, for daemons with Liveness, liveness) probe is this shell command instead of http
	StopCmd       string       `json:"stop_cmd,omitempty"`      // shutdown.command
	Disabled      bool         `json:"disabled,omitempty"`
	Daemon        bool         `json:"daemon,omitempty"`
	StopTimeout   int          `json:"stop_timeout,omitempty"`
	Out           []sim.Chunk  `json:"out,omitempty"`
	Replicas      int          `json:"replicas,omitempty"`
	Tag           string       `json:"tag,omitempty"`
	StopMark      string       `json:"stop_mark,omitempty"` // file into which the shutdown command writes `date +%s%N` when it is done
	RealExe       string       `json:"real_exe,omitempty"`  // entrypoint of a real (not simulated) command, e.g. one that cannot be started
}

// Op is an action of the harness (an API call or an environment action).
type Op struct {
	// When: "t:<ms>" ms after start | "hold:<tag>" when that hold is active |
	// "launch:<proc>:<n>" after the n-th launch of proc | "exit:<proc>:<n>" |
	// "state:<proc>:<status>" | "after:<i>" after op i returned | "now".
	When string `json:"when"`
	// Op: start stop restart shutdown scale release ready probe_ok probe_fail relhold
	Op      string   `json:"op"`
	Proc    string   `json:"proc,omitempty"`
	N       int      `json:"n,omitempty"`
	Release []string `json:"release,omitempty"` // hold tags released after the op returned
	Async   bool     `json:"async,omitempty"`   // do not wait for the op before the next one
}

type LifeSpec struct {
	Procs           []PSpec    `json:"procs"`
	Ordered         bool       `json:"ordered,omitempty"`
	Ops             []Op       `json:"ops,omitempty"`
	Holds           []sim.Hold `json:"holds,omitempty"`
	PerturbUs       int        `json:"perturb_us,omitempty"`
	BackoffUnitMs   int        `json:"backoff_unit_ms,omitempty"` // 0 = real seconds
	AutoSched       bool       `json:"auto_sched,omitempty"`      // environment scheduler releases held exits / ready lines / probes
	SchedPauseMs    int        `json:"sched_pause_ms,omitempty"`
	ToRun           []string   `json:"to_run,omitempty"`
	NoDeps          bool       `json:"no_deps,omitempty"`
	SilenceMs       int        `json:"silence_ms,omitempty"` // hang rule; default 6000
	MaxMs           int        `json:"max_ms,omitempty"`     // outer watchdog; default 60000
	LogLength       int        `json:"log_length,omitempty"`
	IsStrict        bool       `json:"is_strict,omitempty"`
	EndWithShutdown bool       `json:"end_with_shutdown,omitempty"` // after ops done, if Run() still going: ShutDownProject
	NoOutEvents     bool       `json:"no_out_events,omitempty"`
	ViaClient       bool       `json:"via_client,omitempty"`    // API requests go through the REST server and the bundled client
	PreRunStart     []string   `json:"pre_run_start,omitempty"` // StartProcess requests served before Run() is called
}

func (s *LifeSpec) proc(name string) *PSpec {
	for i := range s.Procs {
		if s.Procs[i].Name == name {
			return &s.Procs[i]
		}
	}
	return nil
}

// ---------------------------------------------------------------- probe endpoint

// probeServer serves readiness/liveness probes with harness-chosen outcomes and
// records each served probe before answering.
type probeServer struct {
	w    *sim.World
	ln   net.Listener
	srv  *http.Server
	mu   sync.Mutex
	ok   map[string]bool  // current outcome per process
	seq  map[string][]int // scripted outcome sequence per process (1 ok, 0 fail), consumed first
	hits map[string]int
	// delayMs: the answer to a probe of that process is held back this long
	// (the request is recorded at once)
	delayMs map[string]int
}

func newProbeServer(w *sim.World) (*probeServer, error) {
	ln, err := net.Listen("tcp", "127.0.0.1:0")
	if err != nil {
		return nil, err
	}
	ps := &probeServer{w: w, ln: ln, ok: map[string]bool{}, seq: map[string][]int{}, hits: map[string]int{}, delayMs: map[string]int{}}
	mux := http.NewServeMux()
	mux.HandleFunc("/", func(rw http.ResponseWriter, r *http.Request) {
		name := strings.Trim(r.URL.Path, "/")
		ps.mu.Lock()
		ok := ps.ok[name]
		if q := ps.seq[name]; len(q) > 0 {
			ok = q[0] == 1
			ps.seq[name] = q[1:]
		}
		ps.hits[name]++
		delay := ps.delayMs[name]
		ps.mu.Unlock()
		code := 200
		if !ok {
			code = 503
		}
		// only count probes that reach a live command: the prober may fire
		// after exit, which the supervisor ignores
		w.Rec(sim.Event{Kind: sim.EvProbe, Proc: name, Code: code, Flag: ok})
		if delay > 0 {
			time.Sleep(time.Duration(delay) * time.Millisecond)
		}
		rw.WriteHeader(code)
	})
	ps.srv = &http.Server{Handler: mux}
	go ps.srv.Serve(ln)
	return ps, nil
}

func (p *probeServer) port() int { return p.ln.Addr().(*net.TCPAddr).Port }
func (p *probeServer) set(name string, ok bool) {
	p.mu.Lock()
	p.ok[name] = ok
	p.mu.Unlock()
}
func (p *probeServer) close() { p.srv.Close() }

// ---------------------------------------------------------------- yaml

func yq(s string) string { return "'" + strings.ReplaceAll(s, "'", "''") + "'" }

func (ps *PSpec) script(worldID int) sim.Script {
	return sim.Script{W: worldID, Exits: ps.Exits, RunMs: ps.RunMs, Sig: ps.Sig, StartErr: ps.StartErr, Out: ps.Out, Ready: ps.ReadyLine, Tag: ps.Tag}
}

// BuildYAML renders the project file of a lifecycle spec.
func BuildYAML(s *LifeSpec, worldID int, probePort int) string {
	var b strings.Builder
	b.WriteString("version: \"0.5\"\n")
	if s.LogLength > 0 {
		fmt.Fprintf(&b, "log_length: %d\n", s.LogLength)
	}
	if s.IsStrict {
		b.WriteString("is_strict: true\n")
	}
	b.WriteString("processes:\n")
	for i := range s.Procs {
		p := &s.Procs[i]
		fmt.Fprintf(&b, "  %s:\n", p.Name)
		if p.RealExe != "" {
			fmt.Fprintf(&b, "    entrypoint:\n      - %s\n", yq(p.RealExe))
		} else {
			fmt.Fprintf(&b, "    command: %s\n", yq(sim.FormatCommand(p.script(worldID), "")))
		}
		if p.BadDir {
			b.WriteString("    working_dir: /nonexistent/verif/dir\n")
		}
		if p.Disabled {
			b.WriteString("    disabled: true\n")
		}
		if p.Daemon {
			b.WriteString("    is_daemon: true\n")
		}
		if p.Replicas > 1 {
			fmt.Fprintf(&b, "    replicas: %d\n", p.Replicas)
		}
		if p.ReadyLine != "" {
			fmt.Fprintf(&b, "    ready_log_line: %s\n", yq(p.ReadyLine))
		}
		if p.Restart != "" || p.MaxRestarts != 0 || p.Backoff != 0 || p.ExitOnEnd || p.ExitOnSkipped {
			b.WriteString("    availability:\n")
			if p.Restart != "" {
				fmt.Fprintf(&b, "      restart: %s\n", yq(p.Restart))
			}
			if p.MaxRestarts != 0 {
				fmt.Fprintf(&b, "      max_restarts: %d\n", p.MaxRestarts)
			}
			if p.Backoff != 0 {
				fmt.Fprintf(&b, "      backoff_seconds: %d\n", p.Backoff)
			}
			if p.ExitOnEnd {
				b.WriteString("      exit_on_end: true\n")
			}
			if p.ExitOnSkipped {
				b.WriteString("      exit_on_skipped: true\n")
			}
		}
		if p.StopTimeout != 0 || p.Daemon || p.StopCmd != "" {
			b.WriteString("    shutdown:\n")
			if p.StopTimeout != 0 {
				fmt.Fprintf(&b, "      timeout_seconds: %d\n", p.StopTimeout)
			}
			if p.StopCmd != "" {
				fmt.Fprintf(&b, "      command: %s\n", yq(p.StopCmd))
			} else if p.Daemon {
				b.WriteString("      command: 'true'\n")
			}
		}
		if p.ProbeExec != "" {
			ft := p.ProbeFail
			if ft == 0 {
				ft = 3
			}
			kind := "readiness_probe"
			if p.Liveness {
				kind = "liveness_probe"
			}
			fmt.Fprintf(&b, "    %s:\n      exec:\n        command: %s\n      period_seconds: 1\n      timeout_seconds: 1\n      failure_threshold: %d\n", kind, yq(p.ProbeExec), ft)
		} else if p.Probe {
			ft := p.ProbeFail
			if ft == 0 {
				ft = 3
			}
			fmt.Fprintf(&b, "    readiness_probe:\n      http_get:\n        host: 127.0.0.1\n        port: %d\n        path: /%s\n      period_seconds: 1\n      timeout_seconds: 1\n      failure_threshold: %d\n", probePort, p.Name, ft)
			if p.ProbeDelay > 0 {
				fmt.Fprintf(&b, "      initial_delay_seconds: %d\n", p.ProbeDelay)
			}
		}
		if p.Liveness && p.ProbeExec == "" {
			lf := p.LiveFail
			if lf == 0 {
				lf = 3
			}
			fmt.Fprintf(&b, "    liveness_probe:\n      http_get:\n        host: 127.0.0.1\n        port: %d\n        path: /%s\n      period_seconds: 1\n      timeout_seconds: 1\n      failure_threshold: %d\n", probePort, p.Name, lf)
		}
		if len(p.Deps) > 0 {
			b.WriteString("    depends_on:\n")
			for _, d := range p.Deps {
				fmt.Fprintf(&b, "      %s:\n        condition: %s\n", d.On, d.Cond)
			}
		}
	}
	return b.String()
}

// ---------------------------------------------------------------- run

// LifeRun is what the oracles look at.
type LifeRun struct {
	Spec       *LifeSpec
	Events     []sim.Event
	Outcome    sim.WaitOutcome
	ExitCode   int
	Final      map[string]types.ProcessState // after Run() returned (or at the hang)
	LoadErr    error
	Dump       string
	OpErr      map[int]string // op index -> error text ("" = nil)
	OpDone     map[int]bool
	World      *sim.World
	Env        *sim.Env
	YieldCount map[string]int
	Settled    bool // every instance goroutine finished before the final snapshot
	custom     map[string]func(env *sim.Env, lr *LifeRun, op Op) error
	api        *apiServer
	Extra      map[string]any
	Blocked    []string // via-client requests that did not return within their (generous) bound
}

func parseWhen(s string) (kind, a string, n int) {
	parts := strings.Split(s, ":")
	kind = parts[0]
	if len(parts) > 1 {
		a = parts[1]
	}
	if len(parts) > 2 {
		fmt.Sscanf(parts[2], "%d", &n)
	}
	return
}

// RunLife executes a lifecycle scenario. keep=true leaves the Env open (the
// caller must call Cleanup) for follow-up queries.
func RunLife(seed int64, spec *LifeSpec, post func(lr *LifeRun)) *LifeRun {
	return RunLifeOpts(seed, spec, LifeOpts{Post: post})
}

// LifeOpts are the programmatic extras of a lifecycle run.
type LifeOpts struct {
	Post   func(lr *LifeRun)                                       // after Run() returned, before cleanup
	Custom map[string]func(env *sim.Env, lr *LifeRun, op Op) error // ops with Op == "custom:<name>"
	Setup  func(env *sim.Env, lr *LifeRun)                         // after the runner exists, before Run()
}

func RunLifeOpts(seed int64, spec *LifeSpec, lo LifeOpts) *LifeRun {
	post := lo.Post
	w := sim.NewWorld(seed)
	w.NoOutEvents = spec.NoOutEvents
	if spec.BackoffUnitMs > 0 {
		w.BackoffUnit = time.Duration(spec.BackoffUnitMs) * time.Millisecond
	}
	w.SetHolds(spec.Holds)
	w.SetPerturb(spec.PerturbUs)
	sim.SetCurrent(w)
	defer sim.Forget(w)
	lr := &LifeRun{Spec: spec, World: w, OpErr: map[int]string{}, OpDone: map[int]bool{}}

	var ps *probeServer
	needProbe := false
	for i := range spec.Procs {
		if spec.Procs[i].Probe || spec.Procs[i].Liveness {
			needProbe = true
		}
	}
	port := 1
	if needProbe {
		var err error
		ps, err = newProbeServer(w)
		if err != nil {
			lr.LoadErr = err
			return lr
		}
		defer ps.close()
		port = ps.port()
		for i := range spec.Procs {
			if len(spec.Procs[i].ProbeSeq) > 0 {
				ps.seq[spec.Procs[i].Name] = append([]int(nil), spec.Procs[i].ProbeSeq...)
			}
			if spec.Procs[i].ProbeSlowMs > 0 {
				ps.delayMs[spec.Procs[i].Name] = spec.Procs[i].ProbeSlowMs
			}
		}
	}
	yaml := BuildYAML(spec, w.ID, port)
	env, err := sim.NewEnv(w, yaml, sim.EnvOpts{Ordered: spec.Ordered, ToRun: spec.ToRun, NoDeps: spec.NoDeps})
	if err != nil {
		lr.LoadErr = err
		w.Close()
		return lr
	}
	lr.Env = env
	lr.custom = lo.Custom
	defer env.Cleanup()
	if spec.ViaClient {
		lr.api = startAPI(env)
		defer lr.api.close()
	}
	if lo.Setup != nil {
		lo.Setup(env, lr)
	}
	for _, n := range spec.PreRunStart {
		name := n
		_ = env.Call("start", name, 0, func() error {
			if lr.api != nil {
				return lr.api.client.StartProcess(name)
			}
			return env.Runner.StartProcess(name)
		})
	}
	env.Start()

	rng := rand.New(rand.NewSource(seed ^ 0x5eed))
	stopSched := make(chan struct{})
	var schedWg sync.WaitGroup
	if spec.AutoSched {
		schedWg.Add(1)
		go func() {
			defer schedWg.Done()
			autoSched(w, spec, ps, rng, stopSched)
		}()
	}

	// ops driver
	opsDone := make(chan struct{})
	go func() {
		defer close(opsDone)
		runOps(lr, env, ps, spec)
	}()

	silence := time.Duration(spec.SilenceMs) * time.Millisecond
	if silence == 0 {
		silence = 6 * time.Second
	}
	max := time.Duration(spec.MaxMs) * time.Millisecond
	if max == 0 {
		max = 60 * time.Second
	}
	// wait for ops first (bounded), then for Run()
	select {
	case <-opsDone:
	case <-time.After(max):
	}
	if spec.EndWithShutdown {
		// also when Run() already returned: API-started instances may be alive
		_ = env.Call("shutdown", "", 0, func() error { return env.Runner.ShutDownProject() })
	}
	lr.Outcome = env.WaitRun(silence, max)
	if lr.Outcome == sim.RunReturned {
		// let API-started instances that outlive Run() settle (bounded)
		lr.Settled = w.WaitFor(3*time.Second, func(v *sim.WorldView) bool { return v.AliveTotal() == 0 && v.AllInstancesFinished() })
	}
	if lr.Outcome != sim.RunReturned {
		lr.Dump = sim.GoroutineDump()
	} else {
		lr.ExitCode = env.ExitCode()
	}
	close(stopSched)
	schedWg.Wait()
	lr.Final, _ = env.States()
	if post != nil {
		post(lr)
	}
	w.ReleaseAllHolds()
	lr.Events = w.Events()
	lr.YieldCount = w.YieldCounts()
	return lr
}

// autoSched is the environment scheduler: it repeatedly picks one enabled
// environment action (release a held exit, print a ready line, flip a probe to
// ok) at random.
func autoSched(w *sim.World, spec *LifeSpec, ps *probeServer, rng *rand.Rand, stop chan struct{}) {
	readyDone := map[string]bool{}
	probeDone := map[string]bool{}
	for {
		select {
		case <-stop:
			return
		default:
		}
		type act struct {
			kind, name string
			att        int
		}
		var acts []act
		for _, a := range w.AliveInfo() {
			p := spec.proc(baseName(a.Name))
			if p == nil {
				continue
			}
			if a.Held {
				acts = append(acts, act{"release", a.Name, a.Att})
			}
			if p.ReadyLine != "" && !readyDone[a.Name] {
				acts = append(acts, act{"ready", a.Name, a.Att})
			}
			if p.Probe && !probeDone[a.Name] {
				acts = append(acts, act{"probe", a.Name, a.Att})
			}
		}
		if len(acts) > 0 {
			a := acts[rng.Intn(len(acts))]
			switch a.kind {
			case "release":
				w.Release(fmt.Sprintf("exit:%s:%d", a.name, a.att))
			case "ready":
				readyDone[a.name] = true
				w.Release("ready:" + a.name)
			case "probe":
				probeDone[a.name] = true
				ps.set(a.name, true)
			}
		}
		pause := spec.SchedPauseMs
		d := time.Duration(200+rng.Intn(800)) * time.Microsecond
		if pause > 0 {
			d = time.Duration(rng.Intn(pause*1000+1)) * time.Microsecond
		}
		select {
		case <-stop:
			return
		case <-time.After(d):
		}
	}
}

func baseName(replica string) string {
	// replica names are name-N; spec names never contain '-'
	if i := strings.IndexByte(replica, '-'); i >= 0 {
		return replica[:i]
	}
	return replica
}

// waitTrig waits for a trigger predicate; it gives up as soon as Run() returned.
func waitTrig(w *sim.World, timeout time.Duration, pred func(v *sim.WorldView) bool) bool {
	hit := false
	w.WaitFor(timeout, func(v *sim.WorldView) bool {
		if pred(v) {
			hit = true
			return true
		}
		return v.Has(sim.EvRunRet, "", "")
	})
	return hit
}

func runOps(lr *LifeRun, env *sim.Env, ps *probeServer, spec *LifeSpec) {
	w := env.W
	start := time.Now()
	var wg sync.WaitGroup
	var mu sync.Mutex
	opRet := map[int]bool{}
	for i := range spec.Ops {
		op := spec.Ops[i]
		kind, a, n := parseWhen(op.When)
		ok := true
		switch kind {
		case "now", "":
		case "t":
			var ms int
			fmt.Sscanf(a, "%d", &ms)
			if d := time.Duration(ms)*time.Millisecond - time.Since(start); d > 0 {
				time.Sleep(d)
			}
		case "hold":
			ok = waitTrig(w, 5*time.Second, func(v *sim.WorldView) bool { return v.HoldActive(a) })
		case "launch":
			if n == 0 {
				n = 1
			}
			ok = waitTrig(w, 10*time.Second, func(v *sim.WorldView) bool { return v.Launches(a) >= n })
		case "exit":
			if n == 0 {
				n = 1
			}
			ok = waitTrig(w, 10*time.Second, func(v *sim.WorldView) bool { return v.Count(sim.EvExit, a) >= n })
		case "instance":
			if n == 0 {
				n = 1
			}
			ok = waitTrig(w, 10*time.Second, func(v *sim.WorldView) bool { return v.Instances(a) >= n })
		case "state":
			parts := strings.Split(op.When, ":")
			st := parts[2]
			ok = waitTrig(w, 10*time.Second, func(v *sim.WorldView) bool { return v.Has(sim.EvState, a, st) })
		case "health":
			parts := strings.Split(op.When, ":")
			st := strings.Join(parts[2:], ":")
			ok = waitTrig(w, 10*time.Second, func(v *sim.WorldView) bool { return v.Has(sim.EvHealth, a, st) })
		case "probe":
			if n == 0 {
				n = 1
			}
			ok = waitTrig(w, 12*time.Second, func(v *sim.WorldView) bool { return v.Count(sim.EvProbe, a) >= n })
		case "signal":
			ok = waitTrig(w, 12*time.Second, func(v *sim.WorldView) bool { return v.Count(sim.EvSignal, a) >= 1 })
		case "after":
			var idx int
			fmt.Sscanf(a, "%d", &idx)
			deadline := time.Now().Add(20 * time.Second)
			for {
				mu.Lock()
				d := opRet[idx]
				never := lr.OpErr[idx] == "trigger-never-fired"
				mu.Unlock()
				if d || time.Now().After(deadline) || never {
					ok = d
					break
				}
				time.Sleep(200 * time.Microsecond)
			}
		case "pause":
			var ms int
			fmt.Sscanf(a, "%d", &ms)
			time.Sleep(time.Duration(ms) * time.Millisecond)
		}
		if !ok {
			w.Note(fmt.Sprintf("op %d (%s %s) trigger %q never fired", i, op.Op, op.Proc, op.When))
			mu.Lock()
			lr.OpErr[i] = "trigger-never-fired"
			mu.Unlock()
			for _, t := range op.Release {
				w.ReleaseHold(t)
			}
			continue
		}
		do := func(i int, op Op) {
			var err error
			switch op.Op {
			case "start":
				err = env.Call("start", op.Proc, 0, func() error {
					if lr.api != nil {
						return lr.api.client.StartProcess(op.Proc)
					}
					return env.Runner.StartProcess(op.Proc)
				})
			case "stop":
				err = env.Call("stop", op.Proc, 0, func() error {
					if lr.api != nil {
						return lr.api.client.StopProcess(op.Proc)
					}
					return env.Runner.StopProcess(op.Proc)
				})
			case "restart":
				err = env.Call("restart", op.Proc, 0, func() error {
					if lr.api != nil {
						return lr.api.client.RestartProcess(op.Proc)
					}
					return env.Runner.RestartProcess(op.Proc)
				})
			case "shutdown":
				err = env.Call("shutdown", "", 0, func() error { return env.Runner.ShutDownProject() })
			case "scale":
				err = env.Call("scale", op.Proc, op.N, func() error {
					if lr.api != nil {
						return lr.api.client.ScaleProcess(op.Proc, op.N)
					}
					return env.Runner.ScaleProcess(op.Proc, op.N)
				})
			case "release":
				if op.N > 0 {
					w.Release(fmt.Sprintf("exit:%s:%d", op.Proc, op.N))
				} else {
					w.Release("exit:" + op.Proc)
				}
			case "ready":
				w.Release("ready:" + op.Proc)
			case "probe_ok":
				if ps != nil {
					ps.set(op.Proc, true)
				}
			case "probe_fail":
				if ps != nil {
					ps.set(op.Proc, false)
				}
			case "relhold":
				w.ReleaseHold(op.Proc)
			case "sleep":
				time.Sleep(time.Duration(op.N) * time.Millisecond)
			default:
				if strings.HasPrefix(op.Op, "custom:") {
					if f := lr.custom[strings.TrimPrefix(op.Op, "custom:")]; f != nil {
						err = f(env, lr, op)
					}
				}
			}
			mu.Lock()
			if err != nil {
				lr.OpErr[i] = err.Error()
			} else {
				lr.OpErr[i] = ""
			}
			lr.OpDone[i] = true
			opRet[i] = true
			mu.Unlock()
			for _, t := range op.Release {
				w.ReleaseHold(t)
			}
		}
		if op.Async {
			wg.Add(1)
			go func(i int, op Op) { defer wg.Done(); do(i, op) }(i, op)
		} else if lr.api != nil && (op.Op == "start" || op.Op == "stop" || op.Op == "restart" || op.Op == "scale") {
			// through the client: the server side of these requests takes
			// milliseconds here; a client call that has not returned after 25 s
			// never will
			fin := make(chan struct{})
			go func(i int, op Op) { do(i, op); close(fin) }(i, op)
			select {
			case <-fin:
			case <-time.After(25 * time.Second):
				mu.Lock()
				lr.Blocked = append(lr.Blocked, fmt.Sprintf("%s %s (request %d of the history)", op.Op, op.Proc, i))
				mu.Unlock()
				wg.Wait()
				return
			}
		} else {
			do(i, op)
		}
	}
	wg.Wait()
}

// ---------------------------------------------------------------- log helpers

type launchRec struct {
	Seq, Inst, Att int
	ExitSeq        int // -1 if none
	ExitCode       int
	ExitCause      string
	Failed         bool // start failure
	FirstSignalSeq int  // -1 if none
}

type procLog struct {
	Name      string
	InstSeq   map[int]int // instance id -> seq of its instance event
	Instances []int       // seq of instance events
	Launches  []*launchRec
	States    []sim.Event
}

type lifeIndex struct {
	ev            []sim.Event
	procs         map[string]*procLog
	names         []string
	runRet        int // seq, -1 if none
	shutdownEnter []int
}

func indexLife(evs []sim.Event) *lifeIndex {
	ix := &lifeIndex{ev: evs, procs: map[string]*procLog{}, runRet: -1}
	get := func(n string) *procLog {
		p := ix.procs[n]
		if p == nil {
			p = &procLog{Name: n, InstSeq: map[int]int{}}
			ix.procs[n] = p
			ix.names = append(ix.names, n)
		}
		return p
	}
	for i := range evs {
		e := &evs[i]
		switch e.Kind {
		case sim.EvInstance:
			p := get(e.Proc)
			p.Instances = append(p.Instances, e.Seq)
			p.InstSeq[e.Inst] = e.Seq
		case sim.EvLaunch:
			p := get(e.Proc)
			p.Launches = append(p.Launches, &launchRec{Seq: e.Seq, Inst: e.Inst, Att: e.Att, ExitSeq: -1, FirstSignalSeq: -1})
		case sim.EvStartFail:
			p := get(e.Proc)
			for _, l := range p.Launches {
				if l.Att == e.Att {
					l.Failed = true
					l.ExitSeq = e.Seq
					l.ExitCause = "startfail"
				}
			}
		case sim.EvExit:
			p := get(e.Proc)
			for _, l := range p.Launches {
				if l.Att == e.Att {
					l.ExitSeq = e.Seq
					l.ExitCode = e.Code
					l.ExitCause = e.Str
				}
			}
		case sim.EvSignal:
			p := get(e.Proc)
			for _, l := range p.Launches {
				if l.Att == e.Att && l.FirstSignalSeq < 0 {
					l.FirstSignalSeq = e.Seq
				}
			}
		case sim.EvState:
			p := get(e.Proc)
			p.States = append(p.States, *e)
		case sim.EvRunRet:
			ix.runRet = e.Seq
		case sim.EvYield:
			if e.Str == "shutdown.enter" {
				ix.shutdownEnter = append(ix.shutdownEnter, e.Seq)
			}
		}
	}
	sort.Strings(ix.names)
	return ix
}

// aliveAt reports whether a command of name is alive just before seq.
func (ix *lifeIndex) aliveAt(name string, seq int) bool {
	p := ix.procs[name]
	if p == nil {
		return false
	}
	for _, l := range p.Launches {
		if l.Failed {
			continue
		}
		if l.Seq < seq && (l.ExitSeq < 0 || l.ExitSeq > seq) {
			return true
		}
	}
	return false
}

func isTerminal(st string) bool {
	return st == types.ProcessStateCompleted || st == types.ProcessStateSkipped || st == types.ProcessStateError
}

// firstTerminalBefore returns the first terminal state event of name with
// lo < seq < hi (nil if none).
func (ix *lifeIndex) terminalBetween(name string, lo, hi int) *sim.Event {
	p := ix.procs[name]
	if p == nil {
		return nil
	}
	for i := range p.States {
		e := &p.States[i]
		if e.Seq > lo && e.Seq < hi && isTerminal(e.Str) {
			return e
		}
	}
	return nil
}

func witness(lr *LifeRun, max int) []string {
	evs := lr.Events
	var lines []string
	lines = append(lines, "--- spec (yaml) ---")
	lines = append(lines, strings.Split(BuildYAML(lr.Spec, 0, 0), "\n")...)
	lines = append(lines, "--- events ---")
	f := sim.FormatEvents(evs)
	if len(f) > max {
		f = append(f[:max/2], append([]string{"..."}, f[len(f)-max/2:]...)...)
	}
	lines = append(lines, f...)
	if lr.Dump != "" {
		lines = append(lines, "--- goroutine dump (app frames) ---")
		lines = append(lines, filterDump(lr.Dump)...)
	}
	return lines
}

func filterDump(d string) []string {
	var out []string
	for _, g := range strings.Split(d, "\n\n") {
		if strings.Contains(g, "process-compose/src/app") {
			ls := strings.Split(g, "\n")
			if len(ls) > 14 {
				ls = ls[:14]
			}
			out = append(out, ls...)
			out = append(out, "")
		}
		if len(out) > 400 {
			break
		}
	}
	return out
}
