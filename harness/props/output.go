package props

import (
	"bufio"
	"encoding/json"
	"fmt"
	"math/rand"
	"os"
	"path/filepath"
	"strings"
	"time"

	"pcverif/fw"
	"pcverif/sim"
)

// ------------------------------------------------------------------ C11

type outSpec struct {
	Chunks      []sim.Chunk `json:"chunks"`
	Restarts    int         `json:"restarts"`
	ExitCode    int         `json:"exit_code"`
	FileMode    string      `json:"file_mode"` // "" | "proc" | "unified"
	FlushEach   bool        `json:"flush_each_line"`
	NoMetadata  bool        `json:"no_metadata"`
	DisableJSON bool        `json:"disable_json"`
	Timestamp   bool        `json:"add_timestamp"`
	Real        bool        `json:"real"`              // real shell cross-check
	Other       bool        `json:"other"`             // a second process logging concurrently (unified file)
	Stopped     bool        `json:"stopped,omitempty"` // long-running, stopped through the API: the burst "before exit" is what its TERM handler prints
	ShortLog    int         `json:"short_log"`         // >0: log_length smaller than the output (single stream); the stored log must be the exact tail
}

func genOutSpec(rng *rand.Rand, i int) outSpec {
	sp := outSpec{}
	nChunks := 1 + rng.Intn(4)
	for k := 0; k < nChunks; k++ {
		c := sim.Chunk{Stream: []string{"o", "e"}[rng.Intn(2)]}
		switch rng.Intn(6) {
		case 0:
			c.N = 0
		case 1:
			c.N = 1
		case 2:
			c.N = 100 + rng.Intn(300)
		default:
			c.N = 1 + rng.Intn(30)
		}
		switch rng.Intn(8) {
		case 0:
			c.Len = 5000 + rng.Intn(200000) // very long lines
			if c.N > 3 {
				c.N = 3
			}
		case 1:
			c.Len = 4090 + rng.Intn(12) // around the bufio buffer size
		case 2, 3:
			c.Len = 30 + rng.Intn(200)
		}
		if rng.Intn(3) == 0 {
			c.When = "x"
		}
		sp.Chunks = append(sp.Chunks, c)
	}
	// missing final newline on the last chunk of a stream
	if rng.Intn(2) == 0 {
		last := map[string]int{}
		for k, c := range sp.Chunks {
			if c.N > 0 {
				// "x" chunks come after the start chunks
				if prev, ok := last[c.Stream]; !ok || c.When == "x" || sp.Chunks[prev].When != "x" {
					last[c.Stream] = k
				}
			}
		}
		for st, k := range last {
			if rng.Intn(2) == 0 || st == "o" {
				sp.Chunks[k].NoNL = true
			}
		}
	}
	sp.Restarts = []int{0, 0, 1, 2, 3}[rng.Intn(5)]
	sp.ExitCode = []int{0, 1, 3}[rng.Intn(3)]
	sp.FileMode = []string{"", "proc", "proc", "unified"}[rng.Intn(4)]
	sp.FlushEach = rng.Intn(3) == 0
	sp.NoMetadata = rng.Intn(4) == 0
	sp.DisableJSON = rng.Intn(4) == 0
	sp.Timestamp = rng.Intn(4) == 0
	sp.Other = sp.FileMode == "unified" && rng.Intn(2) == 0
	if i%10 == 2 {
		// both streams written heavily at the same time (two reader goroutines append concurrently)
		sp.Chunks = []sim.Chunk{{Stream: "o", N: 300 + rng.Intn(500)}, {Stream: "e", N: 300 + rng.Intn(500)}, {Stream: "o", N: 100, When: "x"}, {Stream: "e", N: 100, When: "x"}}
	}
	if i%10 == 4 {
		sp.Stopped = true
		sp.Restarts = 0
		burst := sim.Chunk{Stream: []string{"o", "e"}[rng.Intn(2)], N: 50 + rng.Intn(400), When: "x", Len: []int{0, 60}[rng.Intn(2)]}
		for k := range sp.Chunks {
			if sp.Chunks[k].Stream == burst.Stream {
				sp.Chunks[k].NoNL = false // only the very last line of a stream may lack its newline
			}
		}
		sp.Chunks = append(sp.Chunks, burst)
	}
	if i%10 == 7 {
		// more output than the configured length: single stream, so that the
		// stored tail is fully determined
		sp.ShortLog = 5 + rng.Intn(200)
		sp.Chunks = []sim.Chunk{{Stream: "o", N: sp.ShortLog + 90 + rng.Intn(350), Len: []int{0, 0, 40}[rng.Intn(3)]}}
		if rng.Intn(2) == 0 {
			sp.Chunks = append(sp.Chunks, sim.Chunk{Stream: "o", N: 1 + rng.Intn(120), When: "x", NoNL: rng.Intn(2) == 0})
		}
		sp.Restarts = []int{0, 0, 1, 2}[rng.Intn(4)]
	}
	return sp
}

// checkTail: the stored log is limited to L lines (the buffer may keep up to
// 100 more); its id-carrying lines must be a gap-free, duplicate-free run that
// ends with the last line written, and at least min(L, total) lines are kept.
func checkTail(name string, mem []string, attempts, perAttempt, L int, r *fw.Result) {
	type id struct{ att, k int }
	var ids []id
	for _, l := range mem {
		pn, att, _, k, ok := parseLineID(l)
		if ok && pn == name {
			ids = append(ids, id{att, k})
		}
	}
	total := attempts * perAttempt
	if len(mem) < L && len(mem) < total {
		r.Add("C11", "tail-too-short", "in-memory log holds %d lines, log_length is %d and %d lines were written", len(mem), L, total)
		return
	}
	if len(ids) == 0 {
		r.Add("C11", "lost-tail", "in-memory log holds none of the %d lines written", total)
		return
	}
	for i := 1; i < len(ids); i++ {
		a, b := ids[i-1], ids[i]
		ok := (b.att == a.att && b.k == a.k+1) || (b.att == a.att+1 && b.k == 0 && a.k == perAttempt-1)
		if !ok {
			what := "missing-line"
			if b.att < a.att || (b.att == a.att && b.k <= a.k) {
				what = "duplicate-or-reordered-line"
			}
			r.Add("C11", what, "in-memory log (log_length %d): line %d of attempt %d is followed by line %d of attempt %d", L, a.k, a.att, b.k, b.att)
			return
		}
	}
	last := ids[len(ids)-1]
	if last.att != attempts || last.k != perAttempt-1 {
		r.Add("C11", "lost-tail", "in-memory log (log_length %d) ends with line %d of attempt %d, the last line written is line %d of attempt %d", L, last.k, last.att, perAttempt-1, attempts)
		return
	}
	r.Count("lines_verified", len(ids))
	r.Count("trimmed_logs_verified", 1)
}

// expectedIDs returns per attempt and stream the number of lines.
func (sp *outSpec) counts() map[string]int {
	m := map[string]int{}
	for _, c := range sp.Chunks {
		m[c.Stream] += c.N
	}
	return m
}

type idKey struct {
	att    int
	stream string
}

// checkIDSeq: lines is the sequence of log lines (in log order); every
// id-carrying line of process name must appear exactly once, per (attempt,
// stream) in order 0..N-1, attempts in order.
func checkIDSeq(where, name string, lines []string, attempts int, counts map[string]int, r *fw.Result, chunks ...[]sim.Chunk) {
	// expected padded length per (stream, k), in emission order
	lens := map[string]int{}
	if len(chunks) > 0 {
		ctr := map[string]int{}
		for _, when := range []string{"", "x"} {
			for _, c := range chunks[0] {
				if c.When != when {
					continue
				}
				for i := 0; i < c.N; i++ {
					lens[fmt.Sprintf("%s/%d", c.Stream, ctr[c.Stream])] = c.Len
					ctr[c.Stream]++
				}
			}
		}
	}
	next := map[idKey]int{}
	lastAtt := 0
	total := 0
	for _, l := range lines {
		pn, att, st, k, ok := parseLineID(l)
		if !ok || pn != name {
			continue
		}
		total++
		key := idKey{att, st}
		if att < lastAtt {
			r.Add("C11", "attempt-order", "%s: a line of attempt %d appears after lines of attempt %d", where, att, lastAtt)
			return
		}
		if att > lastAtt {
			lastAtt = att
		}
		if k != next[key] {
			what := "missing-line"
			if k < next[key] {
				what = "duplicate-or-reordered-line"
			}
			r.Add("C11", what, "%s: attempt %d stream %s: line %d found where line %d was expected", where, att, st, k, next[key])
			return
		}
		// the line carries exactly the text that was written
		if len(chunks) > 0 {
			if want := sim.LineText(name, att, st, k, lens[fmt.Sprintf("%s/%d", st, k)]); !strings.Contains(l, want) {
				r.Add("C11", "line-content", "%s: attempt %d stream %s line %d reads %q, written %q", where, att, st, k, truncS(l, 200), truncS(want, 200))
				return
			}
		}
		// the line must be complete (long lines are padded and end with '$')
		if strings.Contains(l, "#x") && !strings.HasSuffix(strings.TrimRight(l, "\"}\r\n "), "$") && !strings.Contains(l, "$") {
			r.Add("C11", "truncated-line", "%s: attempt %d stream %s line %d is truncated (%d bytes)", where, att, st, k, len(l))
			return
		}
		next[key] = k + 1
	}
	for a := 1; a <= attempts; a++ {
		for st, n := range counts {
			if next[idKey{a, st}] != n {
				what := "lost-tail"
				if next[idKey{a, st}] == 0 && n > 0 {
					what = "lost-attempt-output"
				}
				r.Add("C11", what, "%s: attempt %d stream %s: %d of %d lines present", where, a, st, next[idKey{a, st}], n)
				return
			}
		}
	}
	r.Count("lines_verified", total)
}

func readLogFile(path string, sp *outSpec) ([]string, error) {
	f, err := os.Open(path)
	if err != nil {
		return nil, err
	}
	defer f.Close()
	var out []string
	sc := bufio.NewScanner(f)
	sc.Buffer(make([]byte, 1<<20), 1<<26)
	for sc.Scan() {
		line := sc.Text()
		if !sp.DisableJSON {
			var m map[string]any
			if json.Unmarshal([]byte(line), &m) == nil {
				if msg, ok := m["message"].(string); ok {
					out = append(out, msg)
					continue
				}
			}
		}
		out = append(out, line)
	}
	return out, sc.Err()
}

func runOutput(c fw.Case) fw.Result {
	var sp outSpec
	c.Params(&sp)
	r := fw.Result{NonTrivial: true}
	w := sim.NewWorld(c.Seed)
	w.NoOutEvents = true
	w.BackoffUnit = 5e6
	sim.SetCurrent(w)
	defer sim.Forget(w)
	dir, err := os.MkdirTemp(sim.Scratch, "out-")
	if err != nil {
		r.Inconclusive = err.Error()
		return r
	}
	if os.Getenv("PCVERIF_KEEP") == "" {
		defer os.RemoveAll(dir)
	}
	counts := sp.counts()
	total := 0
	for _, n := range counts {
		total += n
	}
	attempts := sp.Restarts + 1
	exits := make([]int, attempts)
	for i := range exits {
		exits[i] = sp.ExitCode
	}
	var y strings.Builder
	y.WriteString("version: \"0.5\"\n")
	if sp.ShortLog > 0 {
		fmt.Fprintf(&y, "log_length: %d\n", sp.ShortLog)
	} else {
		fmt.Fprintf(&y, "log_length: %d\n", total*attempts+attempts*4+50)
	}
	logCfg := func(indent string) {
		if sp.FlushEach || sp.NoMetadata || sp.DisableJSON || sp.Timestamp {
			fmt.Fprintf(&y, "%slog_configuration:\n", indent)
			if sp.FlushEach {
				fmt.Fprintf(&y, "%s  flush_each_line: true\n", indent)
			}
			if sp.NoMetadata {
				fmt.Fprintf(&y, "%s  no_metadata: true\n", indent)
			}
			if sp.DisableJSON {
				fmt.Fprintf(&y, "%s  disable_json: true\n%s  no_color: true\n", indent, indent)
			}
			if sp.Timestamp {
				fmt.Fprintf(&y, "%s  add_timestamp: true\n", indent)
			}
		}
	}
	unified := filepath.Join(dir, "unified.log")
	procLog := filepath.Join(dir, "proc.log")
	if sp.FileMode == "unified" {
		fmt.Fprintf(&y, "log_location: %s\n", yq(unified))
		logCfg("")
	}
	script := sim.Script{W: w.ID, Exits: exits, RunMs: []int{1}, Out: sp.Chunks}
	if sp.Stopped {
		script.RunMs = []int{-1}
		script.Sig = &sim.SigSpec{Ms: 1}
	}
	fmt.Fprintf(&y, "processes:\n  lg:\n    command: %s\n", yq(sim.FormatCommand(script, "")))
	if sp.Restarts > 0 {
		fmt.Fprintf(&y, "    availability:\n      restart: always\n      max_restarts: %d\n", sp.Restarts)
	}
	if sp.FileMode == "proc" {
		fmt.Fprintf(&y, "    log_location: %s\n", yq(procLog))
		logCfg("    ")
	}
	if sp.Other {
		other := sim.Script{W: w.ID, RunMs: []int{2}, Out: []sim.Chunk{{Stream: "o", N: 200, Len: 40}, {Stream: "e", N: 50, When: "x"}}}
		fmt.Fprintf(&y, "  ot:\n    command: %s\n", yq(sim.FormatCommand(other, "")))
	}
	env, err := sim.NewEnv(w, y.String(), sim.EnvOpts{})
	if err != nil {
		r.Inconclusive = err.Error()
		w.Close()
		return r
	}
	defer env.Cleanup()
	env.Start()
	if sp.Stopped {
		if !w.WaitFor(5*time.Second, func(v *sim.WorldView) bool { return v.Launches("lg") >= 1 }) {
			r.Inconclusive = "lg was not launched"
			r.Dirty = true
			return r
		}
		time.Sleep(time.Duration(c.Seed%5) * time.Millisecond)
		_ = env.Runner.StopProcess("lg")
	}
	if out := env.WaitRun(6e9, 60e9); out != sim.RunReturned {
		r.Inconclusive = fmt.Sprintf("run outcome %d", out)
		r.Dirty = true
		return r
	}
	// in-memory log
	mem, err := env.Runner.GetProcessLog("lg", 1<<30, 0)
	if err != nil {
		r.Add("C11", "log-unavailable", "GetProcessLog failed: %v", err)
	} else if sp.ShortLog > 0 {
		checkTail("lg", mem, attempts, total, sp.ShortLog, &r)
	} else {
		checkIDSeq("in-memory log", "lg", mem, attempts, counts, &r, sp.Chunks)
	}
	switch sp.FileMode {
	case "proc":
		lines, err := readLogFile(procLog, &sp)
		if err != nil {
			r.Add("C11", "log-file-missing", "log file: %v", err)
		} else {
			checkIDSeq("log file", "lg", lines, attempts, counts, &r, sp.Chunks)
		}
	case "unified":
		lines, err := readLogFile(unified, &sp)
		if err != nil {
			r.Add("C11", "log-file-missing", "unified log file: %v", err)
		} else {
			checkIDSeq("unified log file", "lg", lines, attempts, counts, &r, sp.Chunks)
			if sp.Other {
				checkIDSeq("unified log file", "ot", lines, 1, map[string]int{"o": 200, "e": 50}, &r)
			}
		}
	}
	if len(r.Findings) > 0 {
		r.Witness = append(strings.Split(y.String(), "\n"), fmt.Sprintf("in-memory log has %d lines", len(mem)))
		for _, f := range []string{procLog, unified} {
			if b, err := os.ReadFile(f); err == nil {
				if len(b) > 1500 {
					b = b[:1500]
				}
				r.Witness = append(r.Witness, "--- head of "+filepath.Base(f)+" ---", string(b))
			}
		}
		for i, l := range mem {
			if i > 40 {
				break
			}
			if len(l) > 100 {
				l = l[:100] + "…"
			}
			r.Witness = append(r.Witness, l)
		}
	}
	b, _ := json.Marshal(sp)
	r.Sig = sim.Hash(string(b))
	if c.Idx < 2 {
		r.Sample = map[string]any{"spec": sp, "memory_lines": len(mem)}
	}
	return r
}

func runOutputReal(c fw.Case) fw.Result {
	var sp struct {
		Script string   `json:"script"`
		Want   []string `json:"want"`
	}
	c.Params(&sp)
	r := fw.Result{NonTrivial: true}
	w := sim.NewWorld(c.Seed)
	sim.SetCurrent(w)
	defer sim.Forget(w)
	y := "version: \"0.5\"\nprocesses:\n  sh:\n    command: " + yq(sp.Script) + "\n"
	env, err := sim.NewEnv(w, y, sim.EnvOpts{})
	if err != nil {
		r.Inconclusive = err.Error()
		w.Close()
		return r
	}
	defer env.Cleanup()
	env.Start()
	select {
	case <-env.RunDone():
	case <-timeAfter(30):
		r.Inconclusive = "real shell run did not return"
		r.Dirty = true
		return r
	}
	got, _ := env.Runner.GetProcessLog("sh", 1<<30, 0)
	if !eqStrs(got, sp.Want) {
		r.Add("C11", "real-shell-output", "real shell %q: log %q, expected %q", sp.Script, trunc(got), trunc(sp.Want))
	}
	r.Sig = sim.Hash(sp.Script)
	return r
}

func init() {
	fw.Register(&fw.Property{
		ID: "C11", Level: "exploration",
		Rule:        "scripted output (0-400 lines per chunk, lengths up to 200 kB and around the 4096-byte reader buffer, stdout/stderr mix, bursts immediately before exit, missing final newline on either stream, exit codes) x 0-3 restarts x logger configurations (none / per-process file / unified file with a second logging process / flush_each_line / no_metadata / disable_json / add_timestamp); every line carries a unique id and the id sequences of the in-memory log and of the log file must be exactly 0..N-1 per attempt and stream, attempts in order; plus real-shell cross-checks (printf without newline, seq, long lines); distinct = output script + logger configuration",
		Assumptions: []string{"the simulated pipe behaves like an OS pipe: data written before exit stays readable until the read end is closed by Wait()", "supervisor-inserted lines (restart separator, error texts) carry no id and are ignored"},
		Gen: func(seed int64, tier string) []fw.Case {
			var cs []fw.Case
			for i := 0; i < tierN(tier, 5000, 80000); i++ {
				s := fw.SubSeed(seed, i)
				cs = append(cs, fw.MkCase("C11", "scripted", s, genOutSpec(fw.Rand(s), i)))
			}
			reals := []struct {
				s string
				w []string
			}{
				{"printf 'l1\\nl2\\nlast'", []string{"l1", "l2", "last"}},
				{"printf 'only'", []string{"only"}},
				{"seq 1 300", seqStrs(1, 300)},
				{"seq 1 50; printf 'tail' 1>&2", append(seqStrs(1, 50), "tail")},
				{"head -c 100000 /dev/zero | tr '\\0' 'z'; echo", []string{strings.Repeat("z", 100000)}},
				{"echo a; echo b 1>&2; sleep 0.05; echo c", nil},
				// empty and whitespace-only lines are lines (seeded change C11-r4-2)
				{"printf 'a\\n\\n\\nb\\n\\nc\\n'", []string{"a", "", "", "b", "", "c"}},
				{"printf '\\n\\nx'", []string{"", "", "x"}},
				{"echo; echo; echo end", []string{"", "", "end"}},
				{"printf 'h\\n \\n\\t\\nt\\n'", []string{"h", " ", "\t", "t"}},
			}
			for i, rc := range reals {
				if rc.w == nil {
					continue
				}
				cs = append(cs, fw.MkCase("C11", "real-shell", int64(i), map[string]any{"script": rc.s, "want": rc.w}))
			}
			return cs
		},
		Run: func(c fw.Case) fw.Result {
			if c.Kind == "real-shell" {
				return runOutputReal(c)
			}
			return runOutput(c)
		},
		Workers: func(string) int { return 16 },
	})
}

func seqStrs(a, b int) []string {
	var out []string
	for i := a; i <= b; i++ {
		out = append(out, fmt.Sprint(i))
	}
	return out
}

func timeAfter(sec int) <-chan time.Time { return time.After(time.Duration(sec) * time.Second) }
