package sim

import (
	"encoding/json"
	"errors"
	"fmt"
	"io"
	"os"
	"strings"
	"sync"
	"syscall"
	"time"
)

// Script is the behaviour of a simulated command. It travels inside the
// process configuration: `command: 'sim {json} free text'`.
type Script struct {
	W        int      `json:"w"`            // world id
	Exits    []int    `json:"x,omitempty"`  // exit code per attempt (last repeats); default 0
	RunMs    []int    `json:"ms,omitempty"` // lifetime per attempt in ms (last repeats); -1 = until gate exit:<name>[:<att>]
	Sig      *SigSpec `json:"sg,omitempty"` // reaction to signals
	StartErr []int    `json:"se,omitempty"` // attempts whose Start() fails; 0 = every attempt
	Out      []Chunk  `json:"o,omitempty"`  // output script
	Ready    string   `json:"rl,omitempty"` // ready line written when gate ready:<name> opens
	Tag      string   `json:"t,omitempty"`  // free label (config version etc.)
}

type SigSpec struct {
	Mode string `json:"m,omitempty"` // "" / "die" | "ignore" (only SIGKILL kills) | "eperm" (Stop reports EPERM, the command ends ms later)
	Ms   int    `json:"ms,omitempty"`
	Code *int   `json:"c,omitempty"`  // exit code when killed by the signal (default -1)
	Step int    `json:"st,omitempty"` // extra ms per replica number (PC_REPLICA_NUM of the launch environment)
}

// Chunk is a run of output lines.
type Chunk struct {
	Stream string `json:"s"`            // "o" | "e"
	N      int    `json:"n"`            // number of lines
	Len    int    `json:"l,omitempty"`  // padded length of each line (0 = just the id)
	When   string `json:"w,omitempty"`  // "" = at start, "x" = immediately before exit
	NoNL   bool   `json:"nn,omitempty"` // last line of this chunk has no trailing newline
	Att    int    `json:"a,omitempty"`  // only on this attempt (0 = every attempt)
}

// ParseScript extracts the script from an argv; ok=false if this is not a
// simulated command.
func ParseScript(executable string, args []string) (Script, string, bool) {
	var text string
	if executable == "sim" && len(args) > 0 {
		text = args[0]
	} else {
		for i := len(args) - 1; i >= 0; i-- {
			if strings.HasPrefix(args[i], "sim ") {
				text = strings.TrimPrefix(args[i], "sim ")
				break
			}
		}
	}
	if text == "" {
		return Script{}, "", false
	}
	dec := json.NewDecoder(strings.NewReader(text))
	var s Script
	if err := dec.Decode(&s); err != nil {
		return Script{}, "", false
	}
	rest := ""
	if off := int(dec.InputOffset()); off < len(text) {
		rest = strings.TrimSpace(text[off:])
	}
	return s, rest, true
}

// FormatCommand renders the command string for a script.
func FormatCommand(s Script, rest string) string {
	b, _ := json.Marshal(s)
	if rest != "" {
		return "sim " + string(b) + " " + rest
	}
	return "sim " + string(b)
}

func pick(list []int, att int, def int) int {
	if len(list) == 0 {
		return def
	}
	if att-1 < len(list) {
		return list[att-1]
	}
	return list[len(list)-1]
}

// LineID is the id text embedded in every scripted output line.
func LineID(name string, att int, stream string, k int) string {
	return fmt.Sprintf("#L|%s|%d|%s|%d#", name, att, stream, k)
}

// LineText is the full text (without newline) of the k-th line of a stream:
// the id, for every third line some text that is hostile to formatters and
// encoders, then padding up to length.
func LineText(name string, att int, stream string, k int, length int) string {
	line := LineID(name, att, stream, k)
	if k%3 == 1 {
		line += ` 100% done %s %d %v %+v %% a\tb "quoted" \back {"j":1} <&> ünï`
	}
	if length > len(line) {
		line += strings.Repeat("x", length-len(line)-1) + "$"
	}
	return line
}

// ------------------------------------------------------------------ pipe

// bufPipe models an OS pipe: writes never block (unbounded buffer), the
// reader sees EOF after the writer closed and the buffer drained, and closing
// the read end discards whatever was not read yet.
type bufPipe struct {
	mu      sync.Mutex
	cond    *sync.Cond
	buf     []byte
	wclosed bool
	rclosed bool
}

func newBufPipe() *bufPipe {
	p := &bufPipe{}
	p.cond = sync.NewCond(&p.mu)
	return p
}

func (p *bufPipe) Write(b []byte) (int, error) {
	p.mu.Lock()
	defer p.mu.Unlock()
	if p.rclosed {
		return 0, syscall.EPIPE
	}
	if p.wclosed {
		return 0, os.ErrClosed
	}
	p.buf = append(p.buf, b...)
	p.cond.Broadcast()
	return len(b), nil
}

func (p *bufPipe) closeWrite() {
	p.mu.Lock()
	p.wclosed = true
	p.cond.Broadcast()
	p.mu.Unlock()
}

type pipeReader struct{ p *bufPipe }

func (r pipeReader) Read(b []byte) (int, error) {
	p := r.p
	p.mu.Lock()
	defer p.mu.Unlock()
	for {
		if p.rclosed {
			return 0, &os.PathError{Op: "read", Path: "|0", Err: os.ErrClosed}
		}
		if len(p.buf) > 0 {
			n := copy(b, p.buf)
			p.buf = p.buf[n:]
			return n, nil
		}
		if p.wclosed {
			return 0, io.EOF
		}
		p.cond.Wait()
	}
}

func (r pipeReader) Close() error {
	p := r.p
	p.mu.Lock()
	p.rclosed = true
	p.buf = nil
	p.cond.Broadcast()
	p.mu.Unlock()
	return nil
}

type nopWriteCloser struct{}

func (nopWriteCloser) Write(b []byte) (int, error) { return len(b), nil }
func (nopWriteCloser) Close() error                { return nil }

// ------------------------------------------------------------------ proc

// Proc is one simulated command (one launch).
type Proc struct {
	w      *World
	owner  any
	name   string
	inst   int
	att    int
	argv   []string
	rest   string
	script Script
	env    []string
	dir    string

	stdout, stderr *bufPipe
	gotOut, gotErr bool
	attachIo       bool
	cmdArgs        bool

	// guarded by w.mu
	started  bool
	killAt   time.Time
	killed   bool
	killCode int
	deadline time.Time
	exited   bool
	reaped   bool // Wait() returned
	code     int
	pid      int

	done chan struct{}
}

func newProc(w *World, owner any, name string, argv []string, s Script, rest string) *Proc {
	return &Proc{w: w, owner: owner, name: name, argv: argv, script: s, rest: rest, done: make(chan struct{})}
}

func (p *Proc) SetCmdArgs()             { p.cmdArgs = true }
func (p *Proc) AttachIo()               { p.attachIo = true }
func (p *Proc) SetEnv(env []string)     { p.env = env }
func (p *Proc) SetDir(dir string)       { p.dir = dir }
func (p *Proc) Output() ([]byte, error) { return nil, errors.New("sim: Output not supported") }

func (p *Proc) StdoutPipe() (io.ReadCloser, error) {
	if p.stdout == nil {
		p.stdout = newBufPipe()
	}
	p.gotOut = true
	return pipeReader{p.stdout}, nil
}

func (p *Proc) StderrPipe() (io.ReadCloser, error) {
	if p.stderr == nil {
		p.stderr = newBufPipe()
	}
	p.gotErr = true
	return pipeReader{p.stderr}, nil
}

func (p *Proc) StdinPipe() (io.WriteCloser, error) { return nopWriteCloser{}, nil }

func (p *Proc) Pid() int { return p.pid }

func (p *Proc) ExitCode() int {
	p.w.mu.Lock()
	defer p.w.mu.Unlock()
	if !p.exited {
		return -1
	}
	return p.code
}

func (p *Proc) Start() error {
	w := p.w
	w.mu.Lock()
	s := w.shadow(p.name)
	s.launches++
	p.att = s.launches
	p.inst = w.inst[p.owner]
	w.pidN++
	p.pid = w.pidN
	ev := Event{Kind: EvLaunch, Proc: p.name, Inst: p.inst, Att: p.att, Argv: p.argv, Dir: p.dir, Str: p.script.Tag, Str2: p.rest, Code: p.pid, Flag: p.cmdArgs}
	if w.KeepEnv {
		ev.Env = append([]string(nil), p.env...)
	}
	w.recLocked(ev)
	fail := false
	for _, a := range p.script.StartErr {
		if a == 0 || a == p.att {
			fail = true
		}
	}
	if fail {
		w.recLocked(Event{Kind: EvStartFail, Proc: p.name, Inst: p.inst, Att: p.att})
		w.mu.Unlock()
		return fmt.Errorf("sim: exec: %q: scripted start failure", p.name)
	}
	p.started = true
	s.alive[p] = true
	ms := pick(p.script.RunMs, p.att, 0)
	if ms >= 0 {
		p.deadline = time.Now().Add(time.Duration(ms) * time.Millisecond)
	}
	w.mu.Unlock()
	go p.life(ms)
	return nil
}

func (p *Proc) Run() error {
	if err := p.Start(); err != nil {
		return err
	}
	return p.Wait()
}

func (p *Proc) writeChunks(when string) {
	counters := map[string]int{}
	// line numbering continues over chunks per stream: count the start chunks first
	if when == "x" {
		for _, c := range p.script.Out {
			if c.When != "x" && (c.Att == 0 || c.Att == p.att) {
				counters[c.Stream] += c.N
			}
		}
	}
	for _, c := range p.script.Out {
		if (c.When == "x") != (when == "x") {
			continue
		}
		if c.Att != 0 && c.Att != p.att {
			continue
		}
		pipe := p.stdout
		if c.Stream == "e" {
			pipe = p.stderr
		}
		for i := 0; i < c.N; i++ {
			k := counters[c.Stream]
			counters[c.Stream]++
			line := LineText(p.name, p.att, c.Stream, k, c.Len)
			if !p.w.NoOutEvents {
				p.w.Rec(Event{Kind: EvOut, Proc: p.name, Att: p.att, Str: c.Stream, Code: k})
			}
			if !(c.NoNL && i == c.N-1) {
				line += "\n"
			}
			if pipe != nil {
				_, _ = pipe.Write([]byte(line))
			}
		}
	}
}

func (p *Proc) life(ms int) {
	w := p.w
	p.writeChunks("")
	var timer *time.Timer
	if ms > 0 {
		timer = time.AfterFunc(time.Duration(ms)*time.Millisecond, func() {
			w.mu.Lock()
			w.cond.Broadcast()
			w.mu.Unlock()
		})
		defer timer.Stop()
	}
	readyWritten := p.script.Ready == ""
	gateAll := "exit:" + p.name
	gateAtt := fmt.Sprintf("exit:%s:%d", p.name, p.att)
	readyGate := "ready:" + p.name
	cause := ""
	w.mu.Lock()
	for {
		if !readyWritten && w.gates[readyGate] {
			readyWritten = true
			w.recLocked(Event{Kind: EvOut, Proc: p.name, Att: p.att, Str: "o", Code: -1, Flag: true, Str2: p.script.Ready})
			w.mu.Unlock()
			if p.stdout != nil {
				_, _ = p.stdout.Write([]byte("sim-ready " + p.script.Ready + " " + p.name + "\n"))
			}
			w.mu.Lock()
			continue
		}
		now := time.Now()
		if p.killed && !now.Before(p.killAt) {
			cause = "signal"
			break
		}
		if ms >= 0 && !now.Before(p.deadline) {
			cause = "scripted"
			break
		}
		if ms < 0 && (w.gates[gateAll] || w.gates[gateAtt]) {
			cause = "released"
			break
		}
		if w.closed {
			cause = "world-closed"
			break
		}
		w.cond.Wait()
	}
	code := pick(p.script.Exits, p.att, 0)
	if cause == "signal" {
		code = p.killCode
	}
	w.mu.Unlock()

	p.writeChunks("x")

	w.mu.Lock()
	p.exited = true
	p.code = code
	s := w.shadow(p.name)
	delete(s.alive, p)
	s.lastExit = code
	s.hasExit = true
	w.recLocked(Event{Kind: EvExit, Proc: p.name, Inst: p.inst, Att: p.att, Code: code, Str: cause})
	w.mu.Unlock()
	if p.stdout != nil {
		p.stdout.closeWrite()
	}
	if p.stderr != nil {
		p.stderr.closeWrite()
	}
	close(p.done)
}

func (p *Proc) Wait() error {
	<-p.done
	// like exec.Cmd.Wait: the read ends are closed once the command exited
	if p.stdout != nil {
		_ = pipeReader{p.stdout}.Close()
	}
	if p.stderr != nil {
		_ = pipeReader{p.stderr}.Close()
	}
	p.w.mu.Lock()
	p.reaped = true
	p.w.recLocked(Event{Kind: EvWaitRet, Proc: p.name, Inst: p.inst, Att: p.att})
	p.w.mu.Unlock()
	if p.code != 0 {
		return fmt.Errorf("exit status %d", p.code)
	}
	return nil
}

func (p *Proc) Stop(sig int, parentOnly bool) error {
	w := p.w
	w.mu.Lock()
	defer w.mu.Unlock()
	eff := sig
	if eff < 1 || eff > 31 {
		eff = int(syscall.SIGTERM)
	}
	alive := p.started && !p.exited
	st := ""
	if !alive {
		st = "dead"
		if p.started && !p.reaped {
			st = "zombie"
		}
	}
	w.recLocked(Event{Kind: EvSignal, Proc: p.name, Inst: p.inst, Att: p.att, Code: sig, Flag: parentOnly, Str: st})
	if !alive {
		if st == "zombie" {
			// like the OS: an exited but not yet reaped command can still be
			// signalled without error; ESRCH only once Wait() has collected it
			return nil
		}
		return syscall.ESRCH
	}
	mode, ms, code := "die", 0, -1
	if sg := p.script.Sig; sg != nil {
		if sg.Mode != "" {
			mode = sg.Mode
		}
		ms = sg.Ms
		if sg.Step != 0 {
			for _, kv := range p.env {
				if strings.HasPrefix(kv, "PC_REPLICA_NUM=") {
					var k int
					fmt.Sscanf(kv[len("PC_REPLICA_NUM="):], "%d", &k)
					ms += sg.Step * k
				}
			}
		}
		if sg.Code != nil {
			code = *sg.Code
		}
	}
	if eff == int(syscall.SIGKILL) {
		mode, ms, code = "die", 0, -1
	}
	if mode == "ignore" {
		return nil
	}
	var ret error
	if mode == "eperm" {
		// fault: the signal call reports EPERM; the command is still alive when
		// the call returns and ends only ms later
		ret = syscall.EPERM
	}
	at := time.Now().Add(time.Duration(ms) * time.Millisecond)
	if !p.killed || at.Before(p.killAt) {
		p.killed = true
		p.killAt = at
		p.killCode = code
		if ms > 0 {
			time.AfterFunc(time.Duration(ms)*time.Millisecond+100*time.Microsecond, func() {
				w.mu.Lock()
				w.cond.Broadcast()
				w.mu.Unlock()
			})
		}
	}
	w.cond.Broadcast()
	return ret
}
