package sim

import (
	"errors"
	"fmt"
	"os"
	"path/filepath"
	"runtime"
	"sync"
	"time"

	"github.com/f1bonacc1/process-compose/src/app"
	"github.com/f1bonacc1/process-compose/src/loader"
	"github.com/f1bonacc1/process-compose/src/types"
)

// Scratch is the directory for generated files (set by the child process).
var Scratch = "/dev/shm"

// Env is a loaded project with its runner under a World.
type Env struct {
	W       *World
	Dir     string
	Project *types.Project
	Runner  *app.ProjectRunner

	runDone chan struct{}
	runErr  error
	mu      sync.Mutex
	pending int // harness API calls in flight
}

// LoadFiles loads YAML files through the real loader.
func LoadFiles(files []string) (*types.Project, error) {
	opts := &loader.LoaderOptions{FileNames: files, IsInternalLoader: true}
	opts.DisableDotenv(true)
	return loader.Load(opts)
}

// WriteFile writes content into the env-specific scratch dir.
func WriteTemp(dir, name, content string) (string, error) {
	if err := os.MkdirAll(dir, 0o755); err != nil {
		return "", err
	}
	p := filepath.Join(dir, name)
	return p, os.WriteFile(p, []byte(content), 0o644)
}

type EnvOpts struct {
	Ordered  bool
	ToRun    []string
	NoDeps   bool
	Main     string
	MainArgs []string
}

// NewEnv writes yaml, loads it and creates the runner (not started).
func NewEnv(w *World, yaml string, o EnvOpts) (*Env, error) {
	dir, err := os.MkdirTemp(Scratch, fmt.Sprintf("w%d-", w.ID))
	if err != nil {
		return nil, err
	}
	f, err := WriteTemp(dir, "pc.yaml", yaml)
	if err != nil {
		return nil, err
	}
	prj, err := LoadFiles([]string{f})
	if err != nil {
		os.RemoveAll(dir)
		return nil, fmt.Errorf("load: %w", err)
	}
	return NewEnvProject(w, dir, prj, o)
}

func NewEnvProject(w *World, dir string, prj *types.Project, o EnvOpts) (*Env, error) {
	po := (&app.ProjectOpts{}).WithProject(prj).WithOrderedShutDown(o.Ordered).WithProcessesToRun(o.ToRun).WithNoDeps(o.NoDeps).
		WithMainProcess(o.Main).WithMainProcessArgs(o.MainArgs).WithIsTuiOn(true)
	r, err := app.NewProjectRunner(po)
	if err != nil {
		if dir != "" {
			os.RemoveAll(dir)
		}
		return nil, fmt.Errorf("runner: %w", err)
	}
	return &Env{W: w, Dir: dir, Project: prj, Runner: r, runDone: make(chan struct{})}, nil
}

// Start runs Run() in a goroutine.
func (e *Env) Start() {
	go func() {
		err := e.Runner.Run()
		e.mu.Lock()
		e.runErr = err
		e.mu.Unlock()
		code := 0
		var ee *app.ExitError
		if errors.As(err, &ee) {
			code = ee.Code
		} else if err != nil {
			code = -999
		}
		e.W.Rec(Event{Kind: EvRunRet, Code: code})
		close(e.runDone)
	}()
}

// RunDone is closed when Run() returned.
func (e *Env) RunDone() <-chan struct{} { return e.runDone }

func (e *Env) RunReturned() bool {
	select {
	case <-e.runDone:
		return true
	default:
		return false
	}
}

// RunErr returns Run()'s error (valid after RunDone).
func (e *Env) RunErr() error {
	e.mu.Lock()
	defer e.mu.Unlock()
	return e.runErr
}

// ExitCode maps RunErr to the project exit code (0 = nil).
func (e *Env) ExitCode() int {
	err := e.RunErr()
	var ee *app.ExitError
	if errors.As(err, &ee) {
		return ee.Code
	}
	if err != nil {
		return -999
	}
	return 0
}

// Call wraps an API call with api-call / api-ret events. The returned error
// is the call's error.
func (e *Env) Call(op, proc string, arg int, f func() error) error {
	e.mu.Lock()
	e.pending++
	e.mu.Unlock()
	id := e.W.Rec(Event{Kind: EvApiCall, Proc: proc, Str: op, Code: arg})
	err := f()
	txt := ""
	code := 0
	if err != nil {
		txt = err.Error()
		code = 1
	}
	e.W.Rec(Event{Kind: EvApiRet, Proc: proc, Str: op, Code: code, Str2: txt, Att: id})
	e.mu.Lock()
	e.pending--
	e.mu.Unlock()
	return err
}

func (e *Env) Pending() int {
	e.mu.Lock()
	defer e.mu.Unlock()
	return e.pending
}

// WaitOutcome is the result of waiting for Run().
type WaitOutcome int

const (
	RunReturned WaitOutcome = iota
	RunHang                 // silence with nothing alive and nothing pending
	RunWatchdog             // outer watchdog with activity: inconclusive
	RunStalled              // silence while a simulated command is still alive and nothing will end it
)

// WaitRun waits for Run() to return. It reports a hang when no event was
// recorded for `silence` while no simulated command is alive and no harness
// call is pending; the outer watchdog `max` yields inconclusive.
func (e *Env) WaitRun(silence, max time.Duration) WaitOutcome {
	deadline := time.Now().Add(max)
	tick := time.NewTicker(20 * time.Millisecond)
	defer tick.Stop()
	for {
		select {
		case <-e.runDone:
			return RunReturned
		case <-tick.C:
		}
		if e.W.SilenceFor() > silence && e.Pending() == 0 {
			if e.W.AliveCount() == 0 {
				return RunHang
			}
			return RunStalled
		}
		if time.Now().After(deadline) {
			return RunWatchdog
		}
	}
}

// GoroutineDump returns the stacks of all goroutines.
func GoroutineDump() string {
	buf := make([]byte, 1<<20)
	n := runtime.Stack(buf, true)
	return string(buf[:n])
}

// Cleanup removes scratch files and closes the world.
func (e *Env) Cleanup() {
	e.W.Close()
	if e.Dir != "" {
		os.RemoveAll(e.Dir)
	}
}

// States returns name -> state snapshot via the public API.
func (e *Env) States() (map[string]types.ProcessState, error) {
	st, err := e.Runner.GetProcessesState()
	if err != nil {
		return nil, err
	}
	out := map[string]types.ProcessState{}
	for _, s := range st.States {
		out[s.Name] = s
	}
	return out, nil
}
