// Package sim holds the monitoring substrate: the World (event log + shadow
// state guarded by one mutex), the simulated Commander and the hook wiring.
package sim

import (
	"fmt"
	"math/rand"
	"os"
	"sort"
	"strings"
	"sync"
	"sync/atomic"
	"time"
)

// Event kinds.
const (
	EvInstance  = "instance"  // a Process object was created by runProcess
	EvLaunch    = "launch"    // Commander.Start entry
	EvStartFail = "startfail" // Commander.Start returned an error
	EvSignal    = "signal"    // Commander.Stop entry
	EvExit      = "exit"      // the simulated command died
	EvWaitRet   = "waitret"   // Commander.Wait returned
	EvState     = "state"     // status write by the supervisor
	EvHealth    = "health"    // health write by the supervisor
	EvYield     = "yield"     // a yield point was held / released
	EvApiCall   = "api-call"
	EvApiRet    = "api-ret"
	EvProbe     = "probe"  // a probe request was served by the harness
	EvOut       = "out"    // a line was handed to the pipe
	EvGate      = "gate"   // harness released something
	EvRunRet    = "runret" // Run() returned
	EvNote      = "note"
)

// Event is one record of the log. Seq order is the only order oracles use.
type Event struct {
	Seq      int      `json:"seq"`
	T        int64    `json:"t_ns"` // monotonic ns since world start
	Kind     string   `json:"k"`
	Proc     string   `json:"p,omitempty"`
	Inst     int      `json:"i,omitempty"`  // instance id (Process object), 1-based, 0 = n/a
	Att      int      `json:"a,omitempty"`  // launch number of that replica name, 1-based
	Code     int      `json:"c,omitempty"`  // exit code / signal / http status
	Str      string   `json:"s,omitempty"`  // status / op / cause
	Str2     string   `json:"s2,omitempty"` // health / result text
	Argv     []string `json:"argv,omitempty"`
	Env      []string `json:"env,omitempty"`
	Dir      string   `json:"dir,omitempty"`
	Restarts int      `json:"r,omitempty"`
	Flag     bool     `json:"f,omitempty"`
}

// Violation is an online-detected violation (overlap etc.).
type Violation struct {
	Prop string `json:"prop"`
	Key  string `json:"key"`
	Text string `json:"text"`
	Seq  int    `json:"seq"`
}

// Hold describes a bounded hold at a yield point.
type Hold struct {
	Point string `json:"point"`
	Name  string `json:"name"`   // "" = any
	Nth   int    `json:"nth"`    // hold the nth hit (1-based); 0 = first
	MaxMs int    `json:"max_ms"` // bound
	Tag   string `json:"tag"`    // release key
}

type procShadow struct {
	instances int
	launches  int
	alive     map[*Proc]bool
	lastExit  int
	hasExit   bool
}

// World is the per-scenario monitor state.
type World struct {
	ID int

	mu     sync.Mutex
	cond   *sync.Cond
	start  time.Time
	events []Event
	procs  map[string]*procShadow
	inst   map[any]int // *app.Process -> instance id
	instN  int

	gates map[string]bool // released gate names

	holds      []Hold
	holdHits   map[string]int // point|name -> hits
	holdActive map[string]bool
	released   map[string]bool // hold tags released
	YieldCount map[string]int

	perturbUs int
	rng       *rand.Rand

	BackoffUnit time.Duration // 0 = unscaled
	KeepEnv     bool          // record full env at launch
	NoOutEvents bool          // do not record per-line out events

	violations []Violation
	closed     bool
	lastEvent  atomic.Int64 // unix nano of last event

	pidN int
}

var worldSeq atomic.Int64

// Trace prints every event to stderr as it is recorded (PCVERIF_TRACE=1).
var Trace = os.Getenv("PCVERIF_TRACE") != ""

func NewWorld(seed int64) *World {
	w := &World{
		ID:         int(worldSeq.Add(1)),
		start:      time.Now(),
		procs:      map[string]*procShadow{},
		inst:       map[any]int{},
		gates:      map[string]bool{},
		holdHits:   map[string]int{},
		holdActive: map[string]bool{},
		released:   map[string]bool{},
		YieldCount: map[string]int{},
		rng:        rand.New(rand.NewSource(seed)),
		pidN:       4000000 + int(seed%100000)*8,
	}
	w.cond = sync.NewCond(&w.mu)
	w.lastEvent.Store(time.Now().UnixNano())
	return w
}

func (w *World) shadow(name string) *procShadow {
	s := w.procs[name]
	if s == nil {
		s = &procShadow{alive: map[*Proc]bool{}}
		w.procs[name] = s
	}
	return s
}

// recLocked appends an event; w.mu must be held.
func (w *World) recLocked(e Event) int {
	e.Seq = len(w.events)
	e.T = int64(time.Since(w.start))
	w.events = append(w.events, e)
	if Trace {
		fmt.Fprintln(os.Stderr, "TRACE", FormatEvents([]Event{e})[0])
	}
	w.lastEvent.Store(time.Now().UnixNano())
	w.cond.Broadcast()
	return e.Seq
}

// Rec appends an event.
func (w *World) Rec(e Event) int {
	w.mu.Lock()
	defer w.mu.Unlock()
	return w.recLocked(e)
}

func (w *World) Note(s string) { w.Rec(Event{Kind: EvNote, Str: s}) }

// Events returns a copy of the log.
func (w *World) Events() []Event {
	w.mu.Lock()
	defer w.mu.Unlock()
	out := make([]Event, len(w.events))
	copy(out, w.events)
	return out
}

func (w *World) Violations() []Violation {
	w.mu.Lock()
	defer w.mu.Unlock()
	return append([]Violation(nil), w.violations...)
}

func (w *World) addViolationLocked(prop, key, text string) {
	w.violations = append(w.violations, Violation{Prop: prop, Key: key, Text: text, Seq: len(w.events)})
}

// SilenceFor returns how long no event has been recorded.
func (w *World) SilenceFor() time.Duration {
	return time.Duration(time.Now().UnixNano() - w.lastEvent.Load())
}

// AliveCount returns the number of simulated commands alive.
func (w *World) AliveCount() int {
	w.mu.Lock()
	defer w.mu.Unlock()
	n := 0
	for _, s := range w.procs {
		n += len(s.alive)
	}
	return n
}

// AliveNames returns the replica names with a live simulated command.
func (w *World) AliveNames() []string {
	w.mu.Lock()
	defer w.mu.Unlock()
	var out []string
	for n, s := range w.procs {
		if len(s.alive) > 0 {
			out = append(out, n)
		}
	}
	sort.Strings(out)
	return out
}

// IsAlive reports whether a simulated command of name is alive.
func (w *World) IsAlive(name string) bool {
	w.mu.Lock()
	defer w.mu.Unlock()
	s := w.procs[name]
	return s != nil && len(s.alive) > 0
}

// Launches returns the number of launches of name so far.
// StartWall is the wall-clock instant event times are relative to.
func (w *World) StartWall() time.Time { return w.start }

func (w *World) Launches(name string) int {
	w.mu.Lock()
	defer w.mu.Unlock()
	s := w.procs[name]
	if s == nil {
		return 0
	}
	return s.launches
}

// WaitFor blocks until pred (evaluated under the world mutex on every new
// event) holds or the timeout elapses.
func (w *World) WaitFor(timeout time.Duration, pred func(w *WorldView) bool) bool {
	deadline := time.Now().Add(timeout)
	stop := make(chan struct{})
	defer close(stop)
	go func() {
		t := time.NewTimer(timeout + time.Millisecond)
		defer t.Stop()
		select {
		case <-t.C:
			w.mu.Lock()
			w.cond.Broadcast()
			w.mu.Unlock()
		case <-stop:
		}
	}()
	w.mu.Lock()
	defer w.mu.Unlock()
	v := &WorldView{w}
	for !pred(v) {
		if !time.Now().Before(deadline) {
			return false
		}
		w.cond.Wait()
	}
	return true
}

// WorldView gives predicate access to the world under its mutex.
type WorldView struct{ w *World }

func (v *WorldView) Events() []Event { return v.w.events }
func (v *WorldView) Alive(name string) bool {
	s := v.w.procs[name]
	return s != nil && len(s.alive) > 0
}
func (v *WorldView) AliveTotal() int {
	n := 0
	for _, s := range v.w.procs {
		n += len(s.alive)
	}
	return n
}
func (v *WorldView) Launches(name string) int {
	s := v.w.procs[name]
	if s == nil {
		return 0
	}
	return s.launches
}
func (v *WorldView) Instances(name string) int {
	s := v.w.procs[name]
	if s == nil {
		return 0
	}
	return s.instances
}
func (v *WorldView) Count(kind, proc string) int {
	n := 0
	for i := range v.w.events {
		e := &v.w.events[i]
		if e.Kind == kind && (proc == "" || e.Proc == proc) {
			n++
		}
	}
	return n
}
func (v *WorldView) Has(kind, proc, str string) bool {
	for i := range v.w.events {
		e := &v.w.events[i]
		if e.Kind == kind && (proc == "" || e.Proc == proc) && (str == "" || e.Str == str) {
			return true
		}
	}
	return false
}
func (v *WorldView) HoldActive(tag string) bool { return v.w.holdActive[tag] }

// AliveNames lists the replica names with a live simulated command.
func (v *WorldView) AliveNames() []string {
	var out []string
	for n, s := range v.w.procs {
		if len(s.alive) > 0 {
			out = append(out, n)
		}
	}
	sort.Strings(out)
	return out
}

// AllInstancesFinished: every instance goroutine reached runner.afterRun.
func (v *WorldView) AllInstancesFinished() bool {
	inst, fin := 0, 0
	for i := range v.w.events {
		e := &v.w.events[i]
		if e.Kind == EvInstance {
			inst++
		} else if e.Kind == EvYield && e.Str == "runner.afterRun" && e.Str2 == "pass" {
			fin++
		}
	}
	return fin >= inst
}

// ---------------------------------------------------------------- gates

// Release opens a named gate (e.g. "exit:<proc>") and wakes waiters.
func (w *World) Release(gate string) {
	w.mu.Lock()
	defer w.mu.Unlock()
	if !w.gates[gate] {
		w.gates[gate] = true
		w.recLocked(Event{Kind: EvGate, Str: gate})
	}
}

// Unrelease closes a gate again (for per-attempt holds).
func (w *World) Unrelease(gate string) {
	w.mu.Lock()
	defer w.mu.Unlock()
	delete(w.gates, gate)
}

func (w *World) gateOpen(g string) bool {
	w.mu.Lock()
	defer w.mu.Unlock()
	return w.gates[g]
}

// ---------------------------------------------------------------- yields

// SetHolds installs the hold plan.
func (w *World) SetHolds(h []Hold) {
	w.mu.Lock()
	defer w.mu.Unlock()
	w.holds = append([]Hold(nil), h...)
}

// SetPerturb makes every yield point sleep a random 0..us microseconds.
func (w *World) SetPerturb(us int) {
	w.mu.Lock()
	defer w.mu.Unlock()
	w.perturbUs = us
}

// ReleaseHold lets a held goroutine continue.
func (w *World) ReleaseHold(tag string) {
	w.mu.Lock()
	defer w.mu.Unlock()
	w.released[tag] = true
	w.cond.Broadcast()
}

// ReleaseAllHolds releases every hold, present and future.
func (w *World) ReleaseAllHolds() {
	w.mu.Lock()
	defer w.mu.Unlock()
	w.released["*"] = true
	w.cond.Broadcast()
}

// Yield is the yield-point callback.
func (w *World) Yield(point, name string) {
	w.mu.Lock()
	if w.closed {
		w.mu.Unlock()
		return
	}
	w.YieldCount[point]++
	if alwaysRecorded[point] {
		w.recLocked(Event{Kind: EvYield, Proc: name, Str: point, Str2: "pass"})
	}
	var hold *Hold
	for i := range w.holds {
		h := &w.holds[i]
		if h.Point != point || (h.Name != "" && h.Name != name) {
			continue
		}
		k := fmt.Sprintf("%s|%s|%d", h.Point, h.Name, i)
		w.holdHits[k]++
		nth := h.Nth
		if nth == 0 {
			nth = 1
		}
		if w.holdHits[k] == nth {
			hold = h
			break
		}
	}
	sleepUs := 0
	if hold == nil && w.perturbUs > 0 {
		if w.rng.Intn(3) != 0 {
			sleepUs = w.rng.Intn(w.perturbUs + 1)
		}
	}
	if hold == nil {
		w.mu.Unlock()
		if sleepUs > 0 {
			time.Sleep(time.Duration(sleepUs) * time.Microsecond)
		}
		return
	}
	tag := hold.Tag
	maxMs := hold.MaxMs
	if maxMs <= 0 {
		maxMs = 500
	}
	w.holdActive[tag] = true
	w.recLocked(Event{Kind: EvYield, Proc: name, Str: point, Str2: "hold:" + tag})
	deadline := time.Now().Add(time.Duration(maxMs) * time.Millisecond)
	timer := time.AfterFunc(time.Duration(maxMs)*time.Millisecond+time.Millisecond, func() {
		w.mu.Lock()
		w.cond.Broadcast()
		w.mu.Unlock()
	})
	for !w.released[tag] && !w.released["*"] && time.Now().Before(deadline) && !w.closed {
		w.cond.Wait()
	}
	timer.Stop()
	how := "released"
	if !w.released[tag] && !w.released["*"] {
		how = "timeout"
	}
	delete(w.holdActive, tag)
	w.recLocked(Event{Kind: EvYield, Proc: name, Str: point, Str2: how + ":" + tag})
	w.mu.Unlock()
}

// alwaysRecorded yield points are logged on every pass (they are gate /
// ordering events for the oracles).
var alwaysRecorded = map[string]bool{"runner.released": true, "shutdown.enter": true, "shutdown.return": true, "runner.afterRun": true, "shutdown.afterPrepare": true, "run.afterBackoff": true, "stop.afterCancel": true, "Run.loopDone": true}

// AliveInfo describes one live simulated command.
type AliveInfo struct {
	Name string
	Att  int
	Held bool // waits for the harness to release its exit gate
}

// AliveInfo lists the live simulated commands.
func (w *World) AliveInfo() []AliveInfo {
	w.mu.Lock()
	defer w.mu.Unlock()
	var out []AliveInfo
	for n, s := range w.procs {
		for p := range s.alive {
			ms := pick(p.script.RunMs, p.att, 0)
			held := ms < 0 && !w.gates["exit:"+n] && !w.gates[fmt.Sprintf("exit:%s:%d", n, p.att)] && !p.killed
			out = append(out, AliveInfo{Name: n, Att: p.att, Held: held})
		}
	}
	sort.Slice(out, func(i, j int) bool { return out[i].Name < out[j].Name })
	return out
}

// YieldCounts returns a copy of the per-point pass counters.
func (w *World) YieldCounts() map[string]int {
	w.mu.Lock()
	defer w.mu.Unlock()
	out := make(map[string]int, len(w.YieldCount))
	for k, v := range w.YieldCount {
		out[k] = v
	}
	return out
}

// Close marks the world finished: later hook calls are ignored.
func (w *World) Close() {
	w.mu.Lock()
	w.closed = true
	w.released["*"] = true
	w.cond.Broadcast()
	w.mu.Unlock()
}

func (w *World) Closed() bool {
	w.mu.Lock()
	defer w.mu.Unlock()
	return w.closed
}

// ---------------------------------------------------------------- helpers

// Signature hashes the sequence of (kind, proc[, str]) of events whose kind is
// in kinds: the event-order signature used for distinctness.
func Signature(evs []Event, kinds ...string) string {
	set := map[string]bool{}
	for _, k := range kinds {
		set[k] = true
	}
	var sb strings.Builder
	for i := range evs {
		e := &evs[i]
		if !set[e.Kind] {
			continue
		}
		sb.WriteString(e.Kind[:2])
		sb.WriteByte(':')
		sb.WriteString(e.Proc)
		if e.Kind == EvState || e.Kind == EvApiCall || e.Kind == EvGate {
			sb.WriteByte(':')
			sb.WriteString(e.Str)
		}
		if e.Kind == EvExit || e.Kind == EvSignal {
			fmt.Fprintf(&sb, ":%d", e.Code)
		}
		sb.WriteByte(' ')
	}
	return fnv64(sb.String())
}

func fnv64(s string) string {
	var h uint64 = 14695981039346656037
	for i := 0; i < len(s); i++ {
		h ^= uint64(s[i])
		h *= 1099511628211
	}
	return fmt.Sprintf("%016x", h)
}

// Hash exposes the hash used for signatures.
func Hash(s string) string { return fnv64(s) }

// FormatEvents renders events compactly for witnesses.
func FormatEvents(evs []Event) []string {
	out := make([]string, 0, len(evs))
	for _, e := range evs {
		s := fmt.Sprintf("%4d %8.2fms %-9s %-10s", e.Seq, float64(e.T)/1e6, e.Kind, e.Proc)
		if e.Inst != 0 {
			s += fmt.Sprintf(" i%d", e.Inst)
		}
		if e.Att != 0 {
			s += fmt.Sprintf(" a%d", e.Att)
		}
		switch e.Kind {
		case EvExit, EvSignal, EvProbe:
			s += fmt.Sprintf(" code=%d", e.Code)
		case EvState:
			s += fmt.Sprintf(" exit=%d restarts=%d", e.Code, e.Restarts)
		case EvApiRet:
			s += fmt.Sprintf(" code=%d", e.Code)
		}
		if e.Str != "" {
			s += " " + e.Str
		}
		if e.Str2 != "" {
			s += " [" + e.Str2 + "]"
		}
		if e.Flag {
			s += " flag"
		}
		if len(e.Argv) > 0 {
			a := strings.Join(e.Argv, " ")
			if len(a) > 160 {
				a = a[:160] + "…"
			}
			s += " argv=" + a
		}
		out = append(out, s)
	}
	return out
}
