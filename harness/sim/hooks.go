package sim

import (
	"sync"
	"sync/atomic"
	"time"

	"github.com/f1bonacc1/process-compose/src/app"
	"github.com/f1bonacc1/process-compose/src/command"
)

var (
	current  atomic.Pointer[World]
	worlds   sync.Map // int -> *World
	ownerMap sync.Map // *app.Process -> *World
	installO sync.Once
)

// SetCurrent makes w the world that receives hook events.
func SetCurrent(w *World) {
	if w != nil {
		worlds.Store(w.ID, w)
	}
	current.Store(w)
}

// Forget drops a finished world from the registries.
func Forget(w *World) {
	worlds.Delete(w.ID)
	ownerMap.Range(func(k, v any) bool {
		if v.(*World) == w {
			ownerMap.Delete(k)
		}
		return true
	})
	current.CompareAndSwap(w, nil)
}

func worldOf(p *app.Process) *World {
	if v, ok := ownerMap.Load(p); ok {
		return v.(*World)
	}
	if s, _, ok := ParseScript(p.VerifExecutable(), p.VerifArgs()); ok {
		if v, ok := worlds.Load(s.W); ok {
			w := v.(*World)
			ownerMap.Store(p, w)
			return w
		}
		return nil // a simulated command of a world that is gone
	}
	w := current.Load()
	if w != nil {
		ownerMap.Store(p, w)
	}
	return w
}

// Install wires app.VerifHooks to the worlds (idempotent).
func Install() {
	installO.Do(func() {
		app.VerifHooks = app.VerifHookSet{
			Commander: func(p *app.Process) command.Commander {
				s, rest, ok := ParseScript(p.VerifExecutable(), p.VerifArgs())
				if !ok {
					return nil
				}
				var w *World
				if v, ok := worlds.Load(s.W); ok {
					w = v.(*World)
				} else {
					// world gone: a detached world that records into nothing
					w = NewWorld(0)
					w.Close()
				}
				argv := append([]string{p.VerifExecutable()}, p.VerifArgs()...)
				return newProc(w, p, p.VerifName(), argv, s, rest)
			},
			Instance: func(p *app.Process) {
				w := worldOf(p)
				if w == nil {
					return
				}
				w.mu.Lock()
				w.instN++
				w.inst[p] = w.instN
				sh := w.shadow(p.VerifName())
				sh.instances++
				w.recLocked(Event{Kind: EvInstance, Proc: p.VerifName(), Inst: w.instN})
				w.mu.Unlock()
			},
			State: func(p *app.Process, status string) {
				w := worldOf(p)
				if w == nil {
					return
				}
				_, health, code, restarts := p.VerifStateUnlocked()
				w.mu.Lock()
				w.recLocked(Event{Kind: EvState, Proc: p.VerifName(), Inst: w.inst[p], Str: status, Str2: health, Code: code, Restarts: restarts})
				w.mu.Unlock()
			},
			Health: func(p *app.Process, health string) {
				w := worldOf(p)
				if w == nil {
					return
				}
				w.mu.Lock()
				w.recLocked(Event{Kind: EvHealth, Proc: p.VerifName(), Inst: w.inst[p], Str: health})
				w.mu.Unlock()
			},
			Backoff: func(seconds int) (time.Duration, bool) {
				w := current.Load()
				if w == nil || w.BackoffUnit <= 0 {
					return 0, false
				}
				return time.Duration(seconds) * w.BackoffUnit, true
			},
			Yield: func(point, name string) {
				w := current.Load()
				if w == nil {
					return
				}
				w.Yield(point, name)
			},
		}
	})
}
