package fw

import "syscall"

var sigQuit = syscall.SIGQUIT
