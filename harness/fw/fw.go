// Package fw is the check framework: case lists, child-process batches,
// aggregation, known findings, evidence files.
package fw

import (
	"bufio"
	"encoding/json"
	"fmt"
	"math/rand"
	"os"
	"os/exec"
	"os/signal"
	"path/filepath"
	"regexp"
	"runtime"
	"sort"
	"strconv"
	"strings"
	"sync"
	"sync/atomic"
	"syscall"
	"time"
)

// Case is one generated scenario; it must be runnable from its JSON alone.
type Case struct {
	Prop string          `json:"prop"`
	Kind string          `json:"kind"`
	Idx  int             `json:"idx"`
	Seed int64           `json:"seed"`
	P    json.RawMessage `json:"p,omitempty"`
}

func (c Case) Params(v any) {
	if len(c.P) > 0 {
		if err := json.Unmarshal(c.P, v); err != nil {
			panic(fmt.Sprintf("case %d params: %v", c.Idx, err))
		}
	}
}

func MkCase(prop, kind string, seed int64, p any) Case {
	c := Case{Prop: prop, Kind: kind, Seed: seed}
	if p != nil {
		b, err := json.Marshal(p)
		if err != nil {
			panic(err)
		}
		c.P = b
	}
	return c
}

// Finding is one violation of a property found by an oracle.
type Finding struct {
	Prop string `json:"prop"`
	Key  string `json:"key"`  // finding key matched against known_findings.json
	Text string `json:"text"` // human-readable description
}

// Result of running one case.
type Result struct {
	Idx          int            `json:"idx"`
	Kind         string         `json:"kind"`
	Seed         int64          `json:"seed"`
	Findings     []Finding      `json:"findings,omitempty"`
	Inconclusive string         `json:"inconclusive,omitempty"`
	Sig          string         `json:"sig,omitempty"`
	NonTrivial   bool           `json:"nontrivial,omitempty"`
	Counters     map[string]int `json:"counters,omitempty"`
	Sample       any            `json:"sample,omitempty"`
	Witness      []string       `json:"witness,omitempty"`
	Dirty        bool           `json:"dirty,omitempty"` // child must be recycled
	Crash        string         `json:"crash,omitempty"`
	WallMs       int            `json:"wall_ms"`
}

func (r *Result) Add(prop, key, format string, a ...any) {
	r.Findings = append(r.Findings, Finding{Prop: prop, Key: key, Text: fmt.Sprintf(format, a...)})
}

func (r *Result) Count(k string, n int) {
	if r.Counters == nil {
		r.Counters = map[string]int{}
	}
	r.Counters[k] += n
}

// Property describes one check.
type Property struct {
	ID          string
	Level       string // exploration | fault_enumeration
	Rule        string
	Assumptions []string
	Exhaustive  func(tier string) bool
	Gen         func(seed int64, tier string) []Case
	Run         func(c Case) Result
	Workers     func(tier string) int
	Race        bool // needs the -race binary
	// CrashFinding maps a child crash (panic / fatal error text) to a finding;
	// nil = crashes are violations of this property with key "crash".
	CrashFinding func(stderr string) *Finding
	// WatchdogFinding may turn a case-watchdog goroutine dump into a finding
	// (e.g. an API call blocked forever); nil = inconclusive.
	WatchdogFinding func(dump string) *Finding
	// Cleanup runs in the parent after all children are gone (e.g. to sweep
	// real processes left behind by children that were killed).
	Cleanup func()
	// PerCaseTimeout bounds one case (outer watchdog -> inconclusive).
	PerCaseTimeout time.Duration
	// SamplesWanted is the number of sample cases kept in evidence.
	SamplesWanted int
	// Post runs in the parent after aggregation and may add counters.
	Post func(ev *Evidence, results []Result)
}

var registry = map[string]*Property{}

func Register(p *Property) {
	if p.WatchdogFinding == nil {
		id := p.ID
		p.WatchdogFinding = func(dump string) *Finding { return MutexDeadlockFinding(id, dump) }
	}
	registry[p.ID] = p
}

var blockedHdrRe = regexp.MustCompile(`^goroutine \d+ \[(sync\.Mutex\.Lock|sync\.RWMutex\.R?Lock)[^\]]*, (\d+) minutes\]`)
var pcFrameRe = regexp.MustCompile(`^github\.com/f1bonacc1/process-compose/src/([^\s(]+(?:\([^)]*\))?[^\s(]*)\(`)

// MutexDeadlockFinding inspects the goroutine dump written by the in-child
// case watchdog: goroutines of the code under test that have been waiting for
// a mutex for a minute or more are a deadlock (mutexes are held for
// microseconds), i.e. calls that block forever. Anything else that made the
// case exceed its limit stays inconclusive (nil).
func MutexDeadlockFinding(prop, dump string) *Finding {
	fns := map[string]bool{}
	for _, g := range strings.Split(dump, "\n\n") {
		lines := strings.Split(strings.TrimSpace(g), "\n")
		if len(lines) == 0 || !blockedHdrRe.MatchString(lines[0]) {
			continue
		}
		for _, l := range lines[1:] {
			if m := pcFrameRe.FindStringSubmatch(l); m != nil {
				fns[m[1]] = true // innermost frame of the code under test
				break
			}
		}
	}
	if len(fns) < 1 {
		return nil
	}
	var names []string
	for f := range fns {
		names = append(names, f)
	}
	sort.Strings(names)
	if len(names) > 3 {
		names = names[:3]
	}
	return &Finding{Prop: prop, Key: "deadlock:" + strings.Join(names, "|"), Text: "the case exceeded its time limit with goroutines of the supervisor waiting for a mutex for over a minute (deadlock; dump in witness): " + strings.Join(names, ", ")}
}

func Lookup(id string) *Property { return registry[id] }

func IDs() []string {
	var ids []string
	for id := range registry {
		ids = append(ids, id)
	}
	sort.Strings(ids)
	return ids
}

// Rand returns a PRNG for a sub-seed.
func Rand(seed int64) *rand.Rand { return rand.New(rand.NewSource(seed)) }

// SubSeed derives a per-case seed.
func SubSeed(seed int64, i int) int64 {
	x := uint64(seed)*0x9E3779B97F4A7C15 + uint64(i)*0xBF58476D1CE4E5B9 + 0x94D049BB133111EB
	x ^= x >> 30
	x *= 0xBF58476D1CE4E5B9
	x ^= x >> 27
	x *= 0x94D049BB133111EB
	x ^= x >> 31
	return int64(x & 0x7fffffffffffffff)
}

// ---------------------------------------------------------------- known findings

type KnownFinding struct {
	Property  string `json:"property"`
	Key       string `json:"key"`
	KeyPrefix string `json:"key_prefix,omitempty"`
	Text      string `json:"text"`
}

type FixedEntry struct {
	Property string `json:"property"`
	Commit   string `json:"commit"`
	Text     string `json:"text"`
}

type KnownFile struct {
	Findings []KnownFinding `json:"findings"`
	Fixed    []FixedEntry   `json:"fixed"`
}

func LoadKnown(path string) KnownFile {
	var k KnownFile
	b, err := os.ReadFile(path)
	if err != nil {
		return k
	}
	if err := json.Unmarshal(b, &k); err != nil {
		fmt.Fprintf(os.Stderr, "known findings file unreadable: %v\n", err)
	}
	return k
}

func (k KnownFile) Match(f Finding) *KnownFinding {
	for i := range k.Findings {
		kf := &k.Findings[i]
		if kf.Property != f.Prop {
			continue
		}
		if kf.Key != "" && kf.Key == f.Key {
			return kf
		}
		if kf.KeyPrefix != "" && strings.HasPrefix(f.Key, kf.KeyPrefix) {
			return kf
		}
	}
	return nil
}

// ---------------------------------------------------------------- evidence

type Evidence struct {
	PropertyID  string         `json:"property_id"`
	Tier        string         `json:"tier"`
	Seed        int64          `json:"seed"`
	Level       string         `json:"level"`
	Coverage    map[string]any `json:"coverage"`
	Assumptions []string       `json:"assumptions"`
	WallS       float64        `json:"wall_s"`
	Violations  int            `json:"violations"`
}

// ---------------------------------------------------------------- child

// ChildMain runs the cases of one worker and writes result lines.
// defaultSignalDispositions: a check may be started from a context in which
// SIGHUP / SIGINT / SIGQUIT are ignored (nohup, a background job of a
// non-interactive shell). Ignored signals are inherited across exec, and a
// shell cannot trap a signal that was ignored when it started - the process
// trees of the real-process scenarios would never see those signals. Catching
// them here makes them "handled" in this process, hence default in everything
// it executes; receiving one ends this process as the default action would.
func defaultSignalDispositions() {
	ch := make(chan os.Signal, 4)
	signal.Notify(ch, syscall.SIGHUP, syscall.SIGINT, syscall.SIGQUIT)
	go func() {
		s := <-ch
		fmt.Fprintf(os.Stderr, "child: received %v\n", s)
		os.Exit(128 + int(s.(syscall.Signal)))
	}()
}

func ChildMain(casesFile string, worker, of int, outFile string, skip map[int]bool) int {
	defaultSignalDispositions()
	cases, err := ReadCases(casesFile)
	if err != nil {
		fmt.Fprintln(os.Stderr, "child: ", err)
		return 2
	}
	out, err := os.OpenFile(outFile, os.O_CREATE|os.O_WRONLY|os.O_APPEND, 0o644)
	if err != nil {
		fmt.Fprintln(os.Stderr, "child: ", err)
		return 2
	}
	defer out.Close()
	for _, c := range cases {
		if c.Idx%of != worker || skip[c.Idx] {
			continue
		}
		prop := Lookup(c.Prop)
		if prop == nil {
			fmt.Fprintf(os.Stderr, "child: unknown property %s\n", c.Prop)
			return 2
		}
		fmt.Fprintf(out, "START %d\n", c.Idx)
		t0 := time.Now()
		limit := prop.PerCaseTimeout
		if limit == 0 {
			limit = 90 * time.Second
		}
		wd := time.AfterFunc(limit, func() {
			// in-child watchdog: dump and die; the parent records the in-flight
			// case as inconclusive (or lets the property judge the dump)
			fmt.Fprintf(os.Stderr, "CASE-WATCHDOG case %d exceeded %v\n", c.Idx, limit)
			buf := make([]byte, 4<<20)
			n := runtime.Stack(buf, true)
			os.Stderr.Write(buf[:n])
			os.Exit(4)
		})
		r := prop.Run(c)
		wd.Stop()
		r.Idx, r.Kind, r.Seed = c.Idx, c.Kind, c.Seed
		r.WallMs = int(time.Since(t0) / time.Millisecond)
		b, _ := json.Marshal(r)
		fmt.Fprintf(out, "RESULT %s\n", b)
		if r.Dirty {
			return 3
		}
	}
	fmt.Fprintf(out, "DONE\n")
	return 0
}

func ReadCases(path string) ([]Case, error) {
	f, err := os.Open(path)
	if err != nil {
		return nil, err
	}
	defer f.Close()
	var cases []Case
	sc := bufio.NewScanner(f)
	sc.Buffer(make([]byte, 1<<20), 1<<28)
	for sc.Scan() {
		var c Case
		if err := json.Unmarshal(sc.Bytes(), &c); err != nil {
			return nil, err
		}
		cases = append(cases, c)
	}
	return cases, sc.Err()
}

func writeCases(path string, cases []Case) error {
	f, err := os.Create(path)
	if err != nil {
		return err
	}
	w := bufio.NewWriter(f)
	for _, c := range cases {
		b, _ := json.Marshal(c)
		w.Write(b)
		w.WriteByte('\n')
	}
	if err := w.Flush(); err != nil {
		return err
	}
	return f.Close()
}

// parseOut reads a worker's output file.
func parseOut(path string) (results []Result, inflight int, done bool) {
	inflight = -1
	f, err := os.Open(path)
	if err != nil {
		return
	}
	defer f.Close()
	sc := bufio.NewScanner(f)
	sc.Buffer(make([]byte, 1<<20), 1<<28)
	for sc.Scan() {
		line := sc.Text()
		switch {
		case strings.HasPrefix(line, "START "):
			inflight, _ = strconv.Atoi(strings.TrimPrefix(line, "START "))
		case strings.HasPrefix(line, "RESULT "):
			var r Result
			if json.Unmarshal([]byte(strings.TrimPrefix(line, "RESULT ")), &r) == nil {
				results = append(results, r)
				inflight = -1
			}
		case line == "DONE":
			done = true
		}
	}
	return
}

// ---------------------------------------------------------------- parent

type RunOpts struct {
	Tier      string
	Seed      int64
	VerifDir  string
	Exe       string // binary to spawn children from
	RaceExe   string
	OnlyIdx   int // -1 = all
	KeepGoing bool
}

func crashSummary(stderr string) string {
	lines := strings.Split(stderr, "\n")
	for _, l := range lines {
		if strings.HasPrefix(l, "panic:") || strings.HasPrefix(l, "fatal error:") {
			return strings.TrimSpace(l)
		}
	}
	for _, l := range lines {
		if strings.Contains(l, "WARNING: DATA RACE") {
			return "data race"
		}
	}
	if len(stderr) > 200 {
		return stderr[len(stderr)-200:]
	}
	return stderr
}

// RunProperty is the parent: generates the case list, runs it in child
// processes, aggregates, writes evidence, prints verdict lines. Returns the
// process exit code.
func RunProperty(p *Property, o RunOpts) int {
	t0 := time.Now()
	cases := p.Gen(o.Seed, o.Tier)
	for i := range cases {
		cases[i].Idx = i
		cases[i].Prop = p.ID
	}
	if o.OnlyIdx >= 0 {
		var sel []Case
		for _, c := range cases {
			if c.Idx == o.OnlyIdx {
				sel = append(sel, c)
			}
		}
		cases = sel
	}
	if k := os.Getenv("PCVERIF_ONLY_KIND"); k != "" {
		// development aid: restrict to case kinds containing the substring
		var sel []Case
		for _, c := range cases {
			if strings.Contains(c.Kind, k) {
				sel = append(sel, c)
			}
		}
		cases = sel
	}
	if len(cases) == 0 {
		fmt.Printf("INCONCLUSIVE property=%s no cases generated\n", p.ID)
		return 2
	}
	scratch, err := os.MkdirTemp("/dev/shm", "pcverif-"+p.ID+"-")
	if err != nil {
		scratch, err = os.MkdirTemp("", "pcverif-"+p.ID+"-")
		if err != nil {
			fmt.Println("cannot create scratch dir:", err)
			return 2
		}
	}
	defer os.RemoveAll(scratch)
	os.Setenv("PCVERIF_RUN_ID", fmt.Sprint(os.Getpid()))
	if p.Cleanup != nil {
		defer p.Cleanup()
	}
	casesFile := filepath.Join(scratch, "cases.jsonl")
	if err := writeCases(casesFile, cases); err != nil {
		fmt.Println("cannot write cases:", err)
		return 2
	}
	workers := 16
	if p.Workers != nil {
		workers = p.Workers(o.Tier)
	}
	if workers > len(cases) {
		workers = len(cases)
	}
	exe := o.Exe
	if p.Race {
		exe = o.RaceExe
	}
	perCase := p.PerCaseTimeout
	if perCase == 0 {
		perCase = 120 * time.Second
	}

	var mu sync.Mutex
	var all []Result
	var wg sync.WaitGroup
	// circuit breaker: on a tree that makes case after case hang or crash the
	// verdict does not need every remaining case to hang as well
	var stalls int32
	const stallLimit = 16
	for wk := 0; wk < workers; wk++ {
		wg.Add(1)
		go func(wk int) {
			defer wg.Done()
			outFile := filepath.Join(scratch, fmt.Sprintf("out.%d", wk))
			skip := map[int]bool{}
			nMine := 0
			for _, c := range cases {
				if c.Idx%workers == wk {
					nMine++
				}
			}
			for attempt := 0; attempt < nMine+2; attempt++ {
				if atomic.LoadInt32(&stalls) >= stallLimit {
					break
				}
				var skipList []string
				for i := range skip {
					skipList = append(skipList, strconv.Itoa(i))
				}
				wdir := filepath.Join(scratch, fmt.Sprintf("w%d", wk))
				os.MkdirAll(wdir, 0o755)
				cmd := exec.Command(exe, "child", casesFile, strconv.Itoa(wk), strconv.Itoa(workers), outFile, strings.Join(skipList, ","))
				// own session: whatever the code under test signals, it cannot reach the parent
				cmd.SysProcAttr = &syscall.SysProcAttr{Setsid: true}
				cmd.Env = append(os.Environ(), "PCVERIF_SCRATCH="+wdir, "GORACE=halt_on_error=0 log_path="+filepath.Join(scratch, fmt.Sprintf("race.%d", wk)))
				errFile := filepath.Join(scratch, fmt.Sprintf("err.%d.%d", wk, attempt))
				ef, _ := os.Create(errFile)
				cmd.Stderr = ef
				cmd.Stdout = ef
				if err := cmd.Start(); err != nil {
					ef.Close()
					mu.Lock()
					all = append(all, Result{Idx: -1, Inconclusive: "cannot start child: " + err.Error()})
					mu.Unlock()
					return
				}
				doneCh := make(chan error, 1)
				go func() { doneCh <- cmd.Wait() }()
				remaining := nMine - len(skip)
				if remaining < 1 {
					remaining = 1
				}
				limit := time.Duration(remaining)*perCase + 60*time.Second
				timedOut := false
				select {
				case <-doneCh:
				case <-time.After(limit):
					timedOut = true
					_ = cmd.Process.Signal(os.Interrupt)
					_ = cmd.Process.Signal(sigQuit)
					select {
					case <-doneCh:
					case <-time.After(10 * time.Second):
						_ = cmd.Process.Kill()
						<-doneCh
					}
				}
				ef.Close()
				results, inflight, done := parseOut(outFile)
				for _, r := range results {
					skip[r.Idx] = true
				}
				if done {
					break
				}
				if inflight >= 0 && !skip[inflight] {
					eb, _ := os.ReadFile(errFile)
					stderr := string(eb)
					fullDump := stderr
					if len(stderr) > 200000 {
						stderr = stderr[:100000] + "\n...\n" + stderr[len(stderr)-100000:]
					}
					r := Result{Idx: inflight}
					for _, c := range cases {
						if c.Idx == inflight {
							r.Kind, r.Seed = c.Kind, c.Seed
						}
					}
					if timedOut || strings.Contains(stderr, "CASE-WATCHDOG") {
						r.Inconclusive = "case watchdog: the case exceeded its time limit"
						if p.WatchdogFinding != nil {
							if f := p.WatchdogFinding(fullDump); f != nil {
								r.Inconclusive = ""
								r.Findings = append(r.Findings, *f)
							}
						}
						r.Witness = strings.Split(stderr, "\n")
					} else {
						r.Crash = crashSummary(stderr)
						r.Witness = strings.Split(stderr, "\n")
					}
					skip[inflight] = true
					atomic.AddInt32(&stalls, 1)
					mu.Lock()
					all = append(all, r)
					mu.Unlock()
				} else if !timedOut && inflight < 0 {
					// recycled (dirty) or exited between cases: continue
					pending := false
					for _, c := range cases {
						if c.Idx%workers == wk && !skip[c.Idx] {
							pending = true
						}
					}
					if !pending {
						break
					}
				}
			}
			results, _, _ := parseOut(outFile)
			mu.Lock()
			all = append(all, results...)
			mu.Unlock()
		}(wk)
	}
	wg.Wait()
	sort.Slice(all, func(i, j int) bool { return all[i].Idx < all[j].Idx })

	// race logs (for -race properties)
	raceLogs, _ := filepath.Glob(filepath.Join(scratch, "race.*"))
	var raceText []string
	for _, f := range raceLogs {
		b, _ := os.ReadFile(f)
		raceText = append(raceText, string(b))
	}
	return aggregate(p, o, cases, all, raceText, t0)
}

// RaceHook lets a property turn race-detector logs into findings.
var RaceHook func(p *Property, logs []string, ev *Evidence) []Finding

func aggregate(p *Property, o RunOpts, cases []Case, all []Result, raceLogs []string, t0 time.Time) int {
	known := LoadKnown(filepath.Join(o.VerifDir, "known_findings.json"))
	caseByIdx := map[int]Case{}
	for _, c := range cases {
		caseByIdx[c.Idx] = c
	}
	sigs := map[string]bool{}
	counters := map[string]int{}
	kinds := map[string]int{}
	var samples []any
	inconclusive := 0
	var inconclusiveText []string
	executed := 0
	type viol struct {
		f   Finding
		r   *Result
		idx int
	}
	var viols []viol
	knownSeen := map[string]int{}
	seenIdx := map[int]bool{}
	for i := range all {
		r := &all[i]
		if seenIdx[r.Idx] && r.Idx >= 0 {
			continue
		}
		seenIdx[r.Idx] = true
		executed++
		kinds[r.Kind]++
		for k, v := range r.Counters {
			counters[k] += v
		}
		if r.Crash != "" {
			var f *Finding
			if p.CrashFinding != nil {
				f = p.CrashFinding(strings.Join(r.Witness, "\n"))
			} else {
				f = &Finding{Prop: p.ID, Key: "crash:" + r.Crash, Text: "child process crashed while running this case: " + r.Crash}
			}
			if f != nil {
				r.Findings = append(r.Findings, *f)
			} else {
				r.Inconclusive = "child crashed: " + r.Crash
			}
		}
		if r.Inconclusive != "" {
			if len(r.Witness) > 0 && inconclusive < 3 {
				f := filepath.Join(o.VerifDir, "replays", fmt.Sprintf("inconclusive-%s-%d.txt", p.ID, r.Idx))
				_ = os.WriteFile(f, []byte(strings.Join(r.Witness, "\n")), 0o644)
			}
			inconclusive++
			if len(inconclusiveText) < 5 {
				inconclusiveText = append(inconclusiveText, fmt.Sprintf("case %d (%s): %s", r.Idx, r.Kind, r.Inconclusive))
			}
		}
		if r.NonTrivial && r.Sig != "" {
			sigs[r.Sig] = true
		}
		want := p.SamplesWanted
		if want == 0 {
			want = 3
		}
		if r.Sample != nil && len(samples) < want {
			samples = append(samples, map[string]any{"case": caseByIdx[r.Idx], "observed": r.Sample})
		}
		for _, f := range r.Findings {
			if f.Prop != p.ID {
				// an oracle of another property fired in this workload: not this
				// check's verdict, but listed in the evidence (and printed) so
				// that it is looked at
				counters["other_property_observations"]++
				counters["other:"+f.Prop+":"+f.Key]++
				if os.Getenv("PCVERIF_SHOW_OTHER") == "" { // development aid: list them like violations
					continue
				}
			}
			viols = append(viols, viol{f, r, r.Idx})
		}
	}
	missing := 0
	for _, c := range cases {
		if !seenIdx[c.Idx] {
			missing++
		}
	}
	ev := &Evidence{PropertyID: p.ID, Tier: o.Tier, Seed: o.Seed, Level: p.Level, Assumptions: p.Assumptions}
	if ev.Assumptions == nil {
		ev.Assumptions = []string{}
	}
	if RaceHook != nil && p.Race {
		for _, f := range RaceHook(p, raceLogs, ev) {
			viols = append(viols, viol{f, nil, -1})
		}
	}
	if len(samples) == 0 {
		for _, c := range cases {
			samples = append(samples, c)
			if len(samples) >= 2 {
				break
			}
		}
	}
	cov := map[string]any{
		"evaluations":         executed,
		"distinct_nontrivial": len(sigs),
		"rule":                p.Rule,
		"samples":             samples,
		"cases_generated":     len(cases),
		"cases_by_kind":       kinds,
		"inconclusive":        inconclusive,
		"not_executed":        missing,
		"counters":            counters,
	}
	if p.Exhaustive != nil && p.Exhaustive(o.Tier) {
		cov["exhaustive"] = true
	}
	if ev.Coverage != nil {
		for k, v := range ev.Coverage {
			cov[k] = v
		}
	}
	ev.Coverage = cov
	if p.Post != nil {
		p.Post(ev, all)
	}

	exit := 0
	reported := map[string]bool{}
	nViol := 0
	for _, v := range viols {
		if kf := known.Match(v.f); kf != nil {
			knownSeen[kf.Key+kf.KeyPrefix]++
			if knownSeen[kf.Key+kf.KeyPrefix] == 1 {
				fmt.Printf("KNOWN-FINDING: property=%s %s (key %s)\n", p.ID, kf.Text, v.f.Key)
			}
			continue
		}
		nViol++
		if reported[v.f.Key] {
			continue
		}
		reported[v.f.Key] = true
		replay := filepath.Join(o.VerifDir, "replays", fmt.Sprintf("%s-%s-s%d-%d.json", p.ID, o.Tier, o.Seed, v.idx))
		os.MkdirAll(filepath.Dir(replay), 0o755)
		w := map[string]any{"property": p.ID, "tier": o.Tier, "seed": o.Seed, "finding": v.f}
		if v.r != nil {
			w["case"] = caseByIdx[v.idx]
			w["witness"] = v.r.Witness
			w["all_findings"] = v.r.Findings
		} else {
			w["race_logs"] = raceLogs
		}
		b, _ := json.MarshalIndent(w, "", " ")
		_ = os.WriteFile(replay, b, 0o644)
		fmt.Printf("VIOLATION property=%s replay=%s\n", p.ID, replay)
		fmt.Printf("  key=%s\n  %s\n", v.f.Key, v.f.Text)
		exit = 1
	}
	ev.Violations = nViol
	// slowest cases (diagnostic)
	slow := append([]Result(nil), all...)
	sort.Slice(slow, func(i, j int) bool { return slow[i].WallMs > slow[j].WallMs })
	var slowTxt []string
	total := 0
	for _, r := range all {
		total += r.WallMs
	}
	for i := 0; i < len(slow) && i < 5; i++ {
		slowTxt = append(slowTxt, fmt.Sprintf("%d:%dms", slow[i].Idx, slow[i].WallMs))
	}
	cov["slowest_cases"] = slowTxt
	cov["sum_case_wall_ms"] = total
	cov["known_findings_seen"] = knownSeen
	ev.WallS = time.Since(t0).Seconds()
	for _, t := range inconclusiveText {
		fmt.Printf("INCONCLUSIVE property=%s %s\n", p.ID, t)
	}
	if missing > 0 {
		fmt.Printf("INCONCLUSIVE property=%s %d cases were not executed\n", p.ID, missing)
	}
	evPath := filepath.Join(o.VerifDir, "evidence", p.ID+".json")
	os.MkdirAll(filepath.Dir(evPath), 0o755)
	b, _ := json.MarshalIndent(ev, "", " ")
	if err := os.WriteFile(evPath, b, 0o644); err != nil {
		fmt.Println("cannot write evidence:", err)
	}
	fmt.Printf("property=%s tier=%s seed=%d cases=%d executed=%d distinct_nontrivial=%d inconclusive=%d violations=%d known=%d wall=%.1fs\n",
		p.ID, o.Tier, o.Seed, len(cases), executed, len(sigs), inconclusive, nViol, len(knownSeen), ev.WallS)
	if exit == 0 && (len(sigs) < 2 || executed*2 < len(cases)) {
		fmt.Printf("INCONCLUSIVE property=%s the monitors observed too little (distinct non-trivial=%d, executed %d of %d): harness problem, not a verdict\n", p.ID, len(sigs), executed, len(cases))
		return 2
	}
	return exit
}

// Replay re-runs the case of a replay file several times in this process.
func Replay(path string, times int) int {
	b, err := os.ReadFile(path)
	if err != nil {
		fmt.Println(err)
		return 2
	}
	var w struct {
		Property string `json:"property"`
		Case     *Case  `json:"case"`
	}
	if err := json.Unmarshal(b, &w); err != nil || w.Case == nil {
		fmt.Println("replay file has no case (race findings are replayed by re-running the check)")
		return 2
	}
	p := Lookup(w.Property)
	if p == nil {
		fmt.Println("unknown property", w.Property)
		return 2
	}
	exit := 0
	for i := 0; i < times; i++ {
		r := p.Run(*w.Case)
		own := 0
		for _, f := range r.Findings {
			if f.Prop == p.ID {
				own++
				fmt.Printf("run %d: %s: %s\n", i, f.Key, f.Text)
			}
		}
		if own > 0 {
			exit = 1
			for _, l := range r.Witness {
				fmt.Println("   ", l)
			}
			fmt.Printf("VIOLATION property=%s replay=%s\n", p.ID, path)
			break
		}
		fmt.Printf("run %d: held (%s)\n", i, r.Inconclusive)
		if r.Dirty {
			break
		}
	}
	return exit
}
