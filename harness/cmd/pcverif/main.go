// pcverif: runtime-monitoring checks for process-compose (see /verif/DESIGN.md).
package main

import (
	"flag"
	"fmt"
	"os"
	"path/filepath"
	"strconv"
	"strings"

	"github.com/rs/zerolog"
	zlog "github.com/rs/zerolog/log"

	"pcverif/fw"
	_ "pcverif/props"
	"pcverif/sim"
)

func main() {
	if len(os.Args) < 2 {
		fmt.Println("usage: pcverif run <ID> [--tier t] [--seed n] | child ... | replay <file> | list")
		os.Exit(2)
	}
	// silence the supervisor's own diagnostics only: process log files are
	// written through zerolog loggers too and must keep working
	zlog.Logger = zerolog.Nop()
	sim.Install()
	if d := os.Getenv("PCVERIF_SCRATCH"); d != "" {
		sim.Scratch = d
	}
	switch os.Args[1] {
	case "list":
		for _, id := range fw.IDs() {
			fmt.Println(id)
		}
	case "child":
		a := os.Args[2:]
		wk, _ := strconv.Atoi(a[1])
		of, _ := strconv.Atoi(a[2])
		skip := map[int]bool{}
		if len(a) > 4 && a[4] != "" {
			for _, s := range strings.Split(a[4], ",") {
				i, _ := strconv.Atoi(s)
				skip[i] = true
			}
		}
		os.Exit(fw.ChildMain(a[0], wk, of, a[3], skip))
	case "run":
		fs := flag.NewFlagSet("run", flag.ExitOnError)
		tier := fs.String("tier", envOr("VERIF_TIER", "quick"), "quick|thorough")
		seed := fs.Int64("seed", envInt("VERIF_SEED", 1), "seed")
		only := fs.Int("only", -1, "run only this case index")
		verifDir := fs.String("verif", envOr("VERIF_DIR", "/verif"), "verif dir")
		id := os.Args[2]
		fs.Parse(os.Args[3:])
		p := fw.Lookup(id)
		if p == nil {
			fmt.Println("unknown property", id)
			os.Exit(2)
		}
		exe, _ := os.Executable()
		race := filepath.Join(filepath.Dir(exe), "pcverif-race")
		os.Exit(fw.RunProperty(p, fw.RunOpts{Tier: *tier, Seed: *seed, VerifDir: *verifDir, Exe: exe, RaceExe: race, OnlyIdx: *only}))
	case "replay":
		os.Exit(fw.Replay(os.Args[2], 5))
	default:
		fmt.Println("unknown command", os.Args[1])
		os.Exit(2)
	}
}

func envOr(k, d string) string {
	if v := os.Getenv(k); v != "" {
		return v
	}
	return d
}

func envInt(k string, d int64) int64 {
	if v := os.Getenv(k); v != "" {
		if n, err := strconv.ParseInt(v, 10, 64); err == nil {
			return n
		}
	}
	return d
}
