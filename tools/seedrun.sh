#!/bin/bash
# usage: tools/seedrun.sh <patch.diff> <ID>...   applies the patch to /repo, runs the quick checks, reverts
P="$(readlink -f "$1")"; shift
cd /verif
if ! git -C /repo diff --quiet; then echo "/repo is dirty"; exit 2; fi
if ! git -C /repo apply --check "$P" 2>/dev/null; then echo "PATCH DOES NOT APPLY: $P"; exit 2; fi
git -C /repo apply "$P"
trap 'git -C /repo checkout -- . ; git -C /repo clean -fdq -- src' EXIT
for id in "$@"; do
  out=$(VERIF_SEED=${VERIF_SEED:-1} timeout ${CHECK_TIMEOUT:-900} ./check $id --tier ${TIER:-quick} 2>&1); rc=$?
  keys=$(echo "$out" | grep -A1 "^VIOLATION" | grep "key=" | sed 's/ *key=//' | sort -u | head -5 | tr '\n' ';')
  echo "$id rc=$rc $(echo "$out" | grep -c '^VIOLATION') violations; keys: $keys | $(echo "$out" | grep '^property=' | sed 's/.*executed=\([0-9]*\).*wall=\(.*\)/executed=\1 wall=\2/')"
done
