#!/bin/bash
# usage: tools/sweep.sh <log>   clean-tree sweeps: quick tier at seeds 1-5, thorough tier once, quick seed 1 last (evidence)
cd /verif
L=${1:-/tmp/seed/sweep.log}
: > $L
ALL="C01 C02 C03 C04 C05 C06 C07 C08 C09 C10 C11 C12 C13 C14 C15 C16 C17 C18 C19 C20"
if ! git -C /repo diff --quiet; then echo "/repo is dirty" >> $L; exit 2; fi
for s in 2 3 4 5 7; do
  for id in $ALL; do
    out=$(VERIF_SEED=$s ./check $id --tier quick 2>&1); rc=$?
    echo "quick seed=$s $id rc=$rc $(echo "$out" | grep '^property=' | sed 's/.*executed=\([0-9]*\).*inconclusive=\([0-9]*\) violations=\([0-9]*\).*wall=\(.*\)/executed=\1 inc=\2 viol=\3 wall=\4/')" >> $L
    echo "$out" | grep -A2 "^VIOLATION\|^INCONCLUSIVE" | cut -c1-300 >> $L
    [ $rc -ne 0 ] && mkdir -p /tmp/seed/sweep-replays && cp replays/$id-* /tmp/seed/sweep-replays/ 2>/dev/null
  done
done
for id in $ALL; do
  out=$(VERIF_SEED=1 ./check $id --tier thorough 2>&1); rc=$?
  echo "thorough seed=1 $id rc=$rc $(echo "$out" | grep '^property=' | sed 's/.*executed=\([0-9]*\).*inconclusive=\([0-9]*\) violations=\([0-9]*\).*wall=\(.*\)/executed=\1 inc=\2 viol=\3 wall=\4/')" >> $L
  echo "$out" | grep -A2 "^VIOLATION\|^INCONCLUSIVE" | cut -c1-300 >> $L
  [ $rc -ne 0 ] && mkdir -p /tmp/seed/sweep-replays && cp replays/$id-* /tmp/seed/sweep-replays/ 2>/dev/null
done
for id in $ALL; do
  out=$(VERIF_SEED=1 ./check $id --tier quick 2>&1); rc=$?
  echo "final quick seed=1 $id rc=$rc $(echo "$out" | grep '^property=' | sed 's/.*executed=\([0-9]*\).*inconclusive=\([0-9]*\) violations=\([0-9]*\).*wall=\(.*\)/executed=\1 inc=\2 viol=\3 wall=\4/')" >> $L
  echo "$out" | grep -A2 "^VIOLATION\|^INCONCLUSIVE" | cut -c1-300 >> $L
done
echo SWEEP-DONE >> $L
