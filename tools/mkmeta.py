#!/usr/bin/env python3
"""Write seeded/<id>/meta.json for round-2 seeds and rebuild seeded/INDEX.md from
all meta.json files. Inputs: the seed directories (README.md, patch.diff, demo
files) and the batch logs of tools/seedverify.sh / tools/seedrun.sh runs.
usage: tools/mkmeta.py <verify-log> <results-log>"""
import json, os, re, sys, glob

root = '/verif/seeded'
verify_log, result_log = sys.argv[1], sys.argv[2]

def parse(log):
    out, cur = {}, None
    for line in open(log, errors='replace'):
        m = re.match(r'=== (\S+)', line)
        if m:
            cur = m.group(1); out.setdefault(cur, {'verify': None, 'checks': {}}); continue
        if cur is None: continue
        if line.startswith('VERIFY'):
            out[cur]['verify'] = line.strip()
        m = re.match(r'(C\d\d) rc=(\d+) (\d+) violations; keys: (.*?) \| (.*)', line)
        if m:
            keys = [k for k in m.group(4).split(';') if k]
            out[cur]['checks'][m.group(1)] = {'rc': int(m.group(2)), 'keys': keys, 'run': m.group(5).strip()}
    return out

ver = parse(verify_log)
res = parse(result_log)
# verification lines of rebased seeds are in the results log
for k, v in res.items():
    if v['verify']:
        ver.setdefault(k, {'verify': None, 'checks': {}})['verify'] = v['verify'] + ' (re-verified after rebasing onto the repaired tree)'

def section(text, *names):
    for n in names:
        m = re.search(r'^#+\s*' + n + r'.*?\n(.*?)(?=^#+\s|\Z)', text, re.S | re.M | re.I)
        if m:
            return ' '.join(m.group(1).split())[:700]
    return ''

for d in sorted(glob.glob(root + '/C*-r[0-9]-*')):
    sid = os.path.basename(d)
    prop = sid[:3]
    readme = open(os.path.join(d, 'README.md'), errors='replace').read() if os.path.exists(os.path.join(d, 'README.md')) else ''
    title = readme.strip().split('\n')[0].lstrip('# ').strip()
    title = re.sub(r'^C\d\d\s*/?\s*(seed(ed change)?)?\s*\d?\s*[-:]\s*', '', title)
    needs = section(readme, 'What it needs', 'Needs')
    if not needs:
        m = re.search(r'Needs to manifest[^:]*:\s*(.*?)(?:\n\n|\Z)', readme, re.S)
        needs = ' '.join(m.group(1).split())[:700] if m else ''
    demos = sorted(f for f in os.listdir(d) if f.endswith('_test.go') or f.endswith('.sh'))
    own = res.get(sid, {}).get('checks', {})
    caught = {k: v['keys'] for k, v in own.items() if v['rc'] == 1}
    meta = {
        'property': prop,
        'change': title,
        'needs_to_manifest': needs,
        'source': 'independent sub-agent, round %s (only the property text, the list of ideas already used, and a scratch worktree)' % sid.split('-r')[1][0],
        'confirmed': 'tools/seedverify.sh in a scratch worktree: ' + (ver.get(sid, {}).get('verify') or 'n/a'),
        'demonstration': demos,
        'rebased': os.path.exists(os.path.join(d, 'patch.orig.diff')),
        'superseded': open(os.path.join(d, 'SUPERSEDED.txt')).read().strip() if os.path.exists(os.path.join(d, 'SUPERSEDED.txt')) else None,
        'checks_now': {k: v for k, v in caught.items()} or 'missed',
        'own_check_catches': own.get(prop, {}).get('rc') == 1,
        'ran': 'tools/seedrun.sh seeded/%s/patch.diff %s (git apply on /repo, ./check <ID> --tier quick, git checkout)' % (sid, ' '.join(own.keys())),
    }
    json.dump(meta, open(os.path.join(d, 'meta.json'), 'w'), indent=1, ensure_ascii=False)

# round-1 seeds: refresh checks_now from the results log
for d in sorted(glob.glob(root + '/C??-[0-9]')):
    sid = os.path.basename(d)
    mp = os.path.join(d, 'meta.json')
    if not os.path.exists(mp) or sid not in res: continue
    meta = json.load(open(mp))
    own = res[sid]['checks']
    meta['checks_final'] = {k: v['keys'] for k, v in own.items() if v['rc'] == 1} or 'missed'
    meta['own_check_catches'] = own.get(sid[:3], {}).get('rc') == 1
    if os.path.exists(os.path.join(d, 'patch.orig.diff')):
        meta['rebased'] = True
    if os.path.exists(os.path.join(d, 'SUPERSEDED.txt')):
        meta['superseded'] = open(os.path.join(d, 'SUPERSEDED.txt')).read().strip()
    json.dump(meta, open(mp, 'w'), indent=1, ensure_ascii=False)

# INDEX.md
rows = []
for d in sorted(glob.glob(root + '/C*')):
    mp = os.path.join(d, 'meta.json')
    if not os.path.isdir(d) or not os.path.exists(mp): continue
    m = json.load(open(mp)); sid = os.path.basename(d)
    c = m.get('checks_final', m.get('checks_now'))
    if isinstance(c, dict):
        c = '; '.join('%s `%s`' % (k, ', '.join(x[:60] for x in v[:3])) for k, v in c.items())
    rows.append('| %s | %s | %s | %s | %s |' % (sid, m['property'], m.get('change', '')[:110].replace('|', '/'), (m.get('needs_to_manifest') or '')[:140].replace('|', '/'), c))
open(root + '/INDEX.md', 'w').write('# Seeded changes\n\nEach directory: patch.diff (applies to /repo HEAD), demonstration, README.md, meta.json.\n`rebased` = the patch was re-cut after later `fix:` commits touched the same lines (patch.orig.diff is the sub-agent\'s original).\n\n| seed | property | change | needs | caught by (quick tier, seed 1) |\n|---|---|---|---|---|\n' + '\n'.join(rows) + '\n')
print(len(rows), 'rows')
