#!/bin/bash
# usage: tools/seedall.sh <ID> <k> <checks...>   verify the seed and run the given checks against it; append to /verif/seeded/results.txt
ID=$1; K=$2; shift 2
D=/tmp/seed/$ID/_seed/$K
[ -d /verif/seeded/$ID-$K ] && D=/verif/seeded/$ID-$K
echo "=== $ID-$K ($(date +%H:%M))" | tee -a /verif/seeded/results.txt
/verif/tools/seedverify.sh $D 2>&1 | tee -a /verif/seeded/results.txt
/verif/tools/seedrun.sh $D/patch.diff "$@" 2>&1 | tee -a /verif/seeded/results.txt
