#!/bin/bash
# usage: tools/r4collect.sh <ID>   copies /tmp/r4/<ID>/_seed/{1,2} to seeded/<ID>-r4-N and verifies each in a scratch worktree
ID=$1
for K in 1 2 3; do
  S=/tmp/r4/$ID/_seed/$K
  [ -f $S/patch.diff ] || continue
  D=/verif/seeded/$ID-r4-$K
  mkdir -p $D
  cp $S/patch.diff $S/README.md $D/ 2>/dev/null
  cp $S/*_test.go $D/ 2>/dev/null
  ( echo "=== $ID-r4-$K ($(date +%H:%M))"; /verif/tools/seedverify.sh $D 2>&1 ) > /tmp/r4/verify-$ID-$K.log
  cat /tmp/r4/verify-$ID-$K.log
done
