#!/bin/bash
# usage: tools/seedverify.sh <seed dir with patch.diff + *_test.go>
# confirms in a scratch worktree: demo passes unchanged; with patch: build ok, repo suite passes, demo fails.
D="$1"
export GOFLAGS=-mod=mod GOPROXY=off GOSUMDB=off GOTOOLCHAIN=local
WT=/tmp/sv-$$
git -C /repo worktree add -q --detach $WT HEAD || exit 2
trap 'git -C /repo worktree remove --force '$WT' >/dev/null 2>&1; rm -f /tmp/sv-'$$'.*' EXIT
TAGS=""
place() {
  for f in "$D"/*_test.go; do
    [ -e "$f" ] || continue
    pkg=$(grep -m1 '^package ' "$f" | awk '{print $2}' | sed 's/_test$//')
    case $pkg in app|loader|pclog|api|client|health|types|templater|command|cmd|admitter) dir=src/$pkg;; *) dir=src/app;; esac
    cp "$f" $WT/$dir/
    grep -q '^//go:build verif' "$f" && TAGS="-tags verif"
  done
}
unplace() { for f in "$D"/*_test.go; do [ -e "$f" ] && find $WT/src -name "$(basename $f)" -delete; done; }
cd $WT
place
go test -vet=off -count=1 $TAGS -timeout 300s -run 'Seed' ./src/... > /tmp/sv-$$.a 2>&1; a=$?
git apply "$D/patch.diff" || { echo "patch does not apply"; exit 2; }
go build ./... > /tmp/sv-$$.b 2>&1; b=$?
go build -tags verif ./... >> /tmp/sv-$$.b 2>&1; b2=$?
go test -vet=off -count=1 $TAGS -timeout 300s -run 'Seed' ./src/... > /tmp/sv-$$.c 2>&1; c=$?
unplace
go test -vet=off -count=1 ./src/... > /tmp/sv-$$.d 2>&1; d=$?
echo "VERIFY demo-unchanged=$a(want 0) build=$b/$b2(want 0) demo-patched=$c(want !=0) suite-patched=$d(want 0)"
[ $a -ne 0 ] && grep -m3 -- "--- FAIL\|panic:\|^FAIL" /tmp/sv-$$.a | head -3
[ $c -ne 0 ] && grep -m2 -- "--- FAIL" /tmp/sv-$$.c | head -2
[ $d -ne 0 ] && grep -m3 -- "--- FAIL\|^FAIL" /tmp/sv-$$.d | head -3
exit 0
