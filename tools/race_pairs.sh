#!/bin/bash
# usage: tools/race_pairs.sh <tier> <seed...>  -> prints union of race pairs over the runs
cd /verif
TIER=$1; shift
for s in "$@"; do
  VERIF_SEED=$s ./check C20 --tier $TIER > /dev/shm/c20.$s.out 2>&1
  python3 - $s <<'PY'
import json,sys
e=json.load(open('/verif/evidence/C20.json'))
c=e['coverage']
print('seed',sys.argv[1],'reports',c['race_reports'],'pairs',len(c['race_pairs']),'viol',e['violations'], 'wall', round(e['wall_s']))
open('/dev/shm/c20.pairs','a').write('\n'.join(c['race_pairs'])+'\n')
PY
  grep -h "VIOLATION\|INCONCLUSIVE" /dev/shm/c20.$s.out | grep -v "race:" | head -3
done
sort /dev/shm/c20.pairs | uniq -c | sort -rn
