#!/usr/bin/env python3
# regenerates /verif/MANIFEST.json from tools/checks.json + properties.jsonl
import json,subprocess
props=[json.loads(l) for l in open('/verif/properties.jsonl')]
checks=json.load(open('/verif/tools/checks.json'))
hook_commits=subprocess.run("git -C /repo log --format=%h --grep='^verif:'",shell=True,capture_output=True,text=True).stdout.split()
m={"version":1,"setup_cmd":"./check --setup",
"hooks":{"guard":"verif","enable":"go build -tags verif (./check builds the harness module /verif/harness, which replaces the process-compose module with /repo, with -tags verif)",
 "baseline_off_cmd":"cd /repo && GOFLAGS=-mod=mod GOPROXY=off GOSUMDB=off GOTOOLCHAIN=local go test -json -vet=off -count=1 -timeout 25m ./...",
 "source_commits":hook_commits[::-1],"add_only":True},
"engines":[{"name":"pcverif","path":"harness/","serves_properties":sorted(checks.keys()),"kind_free_text":"Go harness built against /repo's working tree with -tags verif: simulated Commander + World event log + offline oracles; one child process per batch; race-detector build for C20"}],
"checks":[], "not_applicable":[], "notes":"Technique family: runtime monitoring and sanitizers. See DESIGN.md. known_findings.json lists recorded findings and fixed defects."}
for p in props:
    pid=p['id']
    if pid in checks:
        c=checks[pid]
        m['checks'].append({"property_id":pid,"quick_cmd":"./check %s --tier quick"%pid,"thorough_cmd":"./check %s --tier thorough"%pid,
          "evidence_file":"/verif/evidence/%s.json"%pid,"replay_cmd_template":"./check %s --replay {path}"%pid,"engine":"pcverif",
          "level_claimed":{"category":c.get('level','exploration'),"text":c['text'],"design_ref":c.get('design_ref','DESIGN.md section 3 / '+pid)},
          "level_note":c['note'],"technique":c['technique']})
    else:
        m['not_applicable'].append({"property_id":pid,"reason":"check under construction in this session (monitor not registered yet)"})
json.dump(m,open('/verif/MANIFEST.json','w'),indent=1)
print('checks:',len(m['checks']),'n/a:',len(m['not_applicable']))
