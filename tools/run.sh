#!/bin/bash
# usage: tools/run.sh [-s seed] [-t tier] ID...   (cleans replays first)
cd /verif
SEED=1; TIER=quick
while getopts "s:t:" o; do case $o in s) SEED=$OPTARG;; t) TIER=$OPTARG;; esac; done
shift $((OPTIND-1))
find /verif/replays -name '*.json' -delete
for p in "$@"; do VERIF_SEED=$SEED ./check $p --tier $TIER 2>&1 | grep -v '^  ' | cut -c1-260 | tail -12; done
