#!/bin/bash
# runs the repository's own suite with hooks OFF and prints pass/fail counts
export GOFLAGS=-mod=mod GOPROXY=off GOSUMDB=off GOTOOLCHAIN=local
cd /repo && go build ./... || exit 1
go test -json -vet=off -count=1 -timeout 25m ./... 2>/dev/null > /dev/shm/repo_suite.json
python3 - <<'PY'
import json
p=f=0; failed=[]
for l in open('/dev/shm/repo_suite.json'):
    try: e=json.loads(l)
    except: continue
    if e.get('Test') and e.get('Action') in('pass','fail'):
        if e['Action']=='pass': p+=1
        else: f+=1; failed.append(e['Package'].split('/')[-1]+'::'+e['Test'])
print('suite: pass=%d fail=%d'%(p,f), failed[:10])
PY
rm -f /dev/shm/repo_suite.json
