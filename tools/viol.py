#!/usr/bin/env python3
# usage: viol.py            -> list replay files with keys
#        viol.py <file> [n] -> show witness (yaml without commands + first n event lines)
import json,glob,sys,collections
if len(sys.argv)==1:
    for f in sorted(glob.glob('/verif/replays/*.json')):
        d=json.load(open(f))
        ks=collections.Counter([x['prop']+':'+x['key'] for x in d.get('all_findings',[])])
        print(f.split('/')[-1], '|', d['finding']['key'], '|', d['finding']['text'][:160], '|', dict(ks), '|', (d.get('case') or {}).get('kind'))
else:
    f=sys.argv[1]
    if not f.startswith('/'): f='/verif/replays/'+f
    if not f.endswith('.json'): f+='.json'
    n=int(sys.argv[2]) if len(sys.argv)>2 else 80
    d=json.load(open(f))
    print(d['finding']); print((d.get('case') or {}).get('kind'))
    for x in d.get('all_findings',[]): print('   ',x['prop'],x['key'],x['text'][:200])
    w=d.get('witness') or []
    try: i=w.index('--- events ---')
    except ValueError: i=0
    print('\n'.join(l for l in w[:i] if 'command:' not in l and 'version' not in l))
    print('\n'.join(l[:170] for l in w[i:i+n]))
    if '--dump' in sys.argv:
        try:
            j=w.index('--- goroutine dump (app frames) ---'); print('\n'.join(w[j:j+120]))
        except ValueError: pass
